"""Contracts for exponax.nonlin_fun and the reaction nonlinearities (C03, C09, C10, C12)."""
from __future__ import annotations

import z3

import exponax
import types
from exponax import nonlin_fun as _NFmod
NF = types.SimpleNamespace(**{n: getattr(_NFmod, n) for n in dir(_NFmod) if not n.startswith("_")})  # snapshot of the REAL classes (module attributes are stubbed during runs)
from exponax.nonlin_fun._base import BaseNonlinearFun
from exponax.stepper.reaction._belousov_zhabotinsky import BelousovZhabotinskyNonlinearFun
from exponax.stepper.reaction._cahn_hilliard import CahnHilliardNonlinearFun
from exponax.stepper.reaction._gray_scott import GrayScottNonlinearFun
from specs import nonlin as SN
from specs import spectral as S
from specs.base import T, arr, wshape
from symjnp import smt, sym, values
from symjnp.contracts import Case, Contract, ObjSpec, Opaque, make_instance
from symjnp.smt import CX

B = "exponax.nonlin_fun._base.BaseNonlinearFun."
P_NL = {"C02", "C03", "C08", "C09", "C10", "C12", "C13"}
DIMS = (1, 2, 3)


class _Carrier(BaseNonlinearFun):
    """concrete carrier through which the abstract base class is exercised"""

    def __init__(self, num_spatial_dims, num_points, *, dealiasing_fraction=None):
        super().__init__(num_spatial_dims, num_points, dealiasing_fraction=dealiasing_fraction)

    def __call__(self, u_hat):
        return u_hat


def _frac(e, none=False):
    if none:
        return None
    return sym.real(e, "frac", lo=0, lo_strict=True, hi=1)


Contract(B + "__init__", props=P_NL,
         cases=[Case(f"D={D},fraction={'None' if n else 'symbolic'}", lambda e, D=D, n=n: ((D, sym.integer(e, "N", lo=1)), {"dealiasing_fraction": _frac(e, n)}))
                for D in DIMS for n in (False, True)],
         invoke=lambda D, N, dealiasing_fraction=None: _Carrier(D, N, dealiasing_fraction=dealiasing_fraction),
         spec=lambda num_spatial_dims, num_points, dealiasing_fraction=None: ObjSpec(None, SN.base_fields(num_spatial_dims, num_points, dealiasing_fraction), check_type=False))


def _nl_self(e, cls, D, extra=None, masked=True, C=None, dop=True, u_channels=None):
    """an instance of `cls` satisfying its representation invariant with arbitrary mask / derivative operator"""
    N = sym.integer(e, "N", lo=1)
    f = {"num_spatial_dims": D, "num_points": N,
         "dealiasing_mask": sym.array(e, "mask", (1,) + wshape(D, N), "bool") if masked else None}
    if dop:
        f["derivative_operator"] = sym.array(e, "dop", (D,) + wshape(D, N), "complex")
    f.update(extra(e, D, N, f) if extra else {})
    Cn = sym.integer(e, "C", lo=1) if u_channels is None else u_channels
    u = sym.array(e, "uh", (Cn,) + wshape(D, N), "complex")
    return make_instance(cls, f), u, N


# ---------------------------------------------------------------- BaseNonlinearFun.dealias / fft / ifft
def _base_cases(kind):
    out = []
    for D in DIMS:
        for masked in (True, False):
            def build(e, D=D, masked=masked):
                obj, uh, N = _nl_self(e, _Carrier, D, masked=masked, dop=False)
                if kind == "fft":
                    C = sym.integer(e, "C", lo=1)
                    return (obj, sym.array(e, "u", (C,) + (N,) * D)), {}
                return (obj, uh), {}
            out.append(Case(f"D={D},mask={'set' if masked else 'None'}", build))
        if kind in ("fft", "ifft"):
            # call sites also pass arrays with TWO leading axes (the flux u (x) u of the multi-channel conservative
            # convection, shape (C, C, N, ..)): the transform must still run over the last D axes only -- a wrapper that
            # lets the helper infer D from ndim would transform a channel axis as well (seeded/C08c-1)
            def build2(e, D=D):
                obj, uh, N = _nl_self(e, _Carrier, D, masked=True, dop=False)
                C, C2 = sym.integer(e, "C", lo=1), sym.integer(e, "C2", lo=1)
                shp = (N,) * D if kind == "fft" else wshape(D, N)
                return (obj, sym.array(e, "u2", (C, C2) + shp, "real" if kind == "fft" else "complex")), {}
            out.append(Case(f"D={D},two leading axes (C, C2, ...)", build2))
    return out


Contract(B + "dealias", props=P_NL, cases=_base_cases("dealias"),
         raises=[(ValueError, lambda self, u_hat: self.dealiasing_mask is None)],
         spec=lambda self, u_hat: SN.dealias(self, u_hat))
Contract(B + "fft", props=P_NL, cases=_base_cases("fft"), spec=lambda self, u: SN.Fm(self, u))
Contract(B + "ifft", props=P_NL, cases=_base_cases("ifft"), spec=lambda self, u_hat: SN.IFm(self, u_hat))


# ----------------------------------------------------------------------------- constructors
def _ctor(cls_q, cls, cases, fields, raises=(), props=P_NL):
    Contract(cls_q, props=props, cases=cases, raises=raises, spec=lambda *a, **k: ObjSpec(cls, fields(*a, **k)))


def _dopN(e, D, Dd=None):
    N = sym.integer(e, "N", lo=1)
    return N, sym.array(e, "dop", ((D if Dd is None else Dd),) + wshape(D, N), "complex")


Q = "exponax.nonlin_fun."

_ctor(Q + "_zero.ZeroNonlinearFun", NF.ZeroNonlinearFun,
      [Case(f"D={D}", lambda e, D=D: ((D, sym.integer(e, "N", lo=1)), {})) for D in DIMS],
      lambda D, N: SN.base_fields(D, N, None))
Contract(Q + "_zero.ZeroNonlinearFun.__call__", props=P_NL | {"C01", "C11"},
         cases=[Case(f"D={D}", lambda e, D=D: (_nl_self(e, NF.ZeroNonlinearFun, D, masked=False, dop=False)[:2], {})) for D in DIMS],
         spec=lambda self, u_hat: SN.zero(self, u_hat))


# convection
def _conv_ctor_cases():
    out = []
    for D in DIMS:
        for sc in (False, True):
            for cons in (False, True):
                def build(e, D=D, sc=sc, cons=cons):
                    N, dop = _dopN(e, D)
                    return (D, N), {"derivative_operator": dop, "dealiasing_fraction": _frac(e), "scale": sym.real(e, "b"), "single_channel": sc, "conservative": cons}
                out.append(Case(f"D={D},single_channel={sc},conservative={cons}", build))

    def build_default(e):   # the documented default fraction (2/3, Orszag's rule): constructed without passing it
        N, dop = _dopN(e, 1)
        return (1, N), {"derivative_operator": dop, "scale": sym.real(e, "b")}
    out.append(Case("D=1,documented default dealiasing fraction", build_default))
    return out


_ctor(Q + "_convection.ConvectionNonlinearFun", NF.ConvectionNonlinearFun, _conv_ctor_cases(),
      lambda D, N, derivative_operator, dealiasing_fraction=2 / 3, scale=1.0, single_channel=False, conservative=False:
      dict(SN.base_fields(D, N, dealiasing_fraction), derivative_operator=derivative_operator, scale=scale,
           single_channel=single_channel, conservative=conservative))


def _conv_call_cases():
    out = []
    for D in DIMS:
        for sc in (False, True):
            for cons in (False, True):
                chans = [1] if sc else [D] + [c for c in (1, 2, 3) if c != D][:1]
                for C in chans:
                    def build(e, D=D, sc=sc, cons=cons, C=C):
                        obj, uh, N = _nl_self(e, NF.ConvectionNonlinearFun, D, u_channels=C,
                                              extra=lambda e, D, N, f: {"scale": sym.real(e, "b"), "single_channel": sc, "conservative": cons})
                        return (obj, uh), {}
                    out.append(Case(f"D={D},single_channel={sc},conservative={cons},C={C}", build))
    return out


Contract(Q + "_convection.ConvectionNonlinearFun.__call__", props=P_NL | {"C20"}, cases=_conv_call_cases(),
         raises=[(ValueError, lambda self, u_hat: (not self.single_channel) and u_hat.shape[0] != self.num_spatial_dims)],
         spec=lambda self, u_hat: SN.convection(self, u_hat))


# gradient norm
def _gn_extra(zmf):
    return lambda e, D, N, f: {"scale": sym.real(e, "b"), "zero_mode_fix": zmf}


_ctor(Q + "_gradient_norm.GradientNormNonlinearFun", NF.GradientNormNonlinearFun,
      [Case(f"D={D},zero_mode_fix={z}", lambda e, D=D, z=z: ((D, _dopN(e, D)[0]), {"derivative_operator": _dopN(e, D)[1], "dealiasing_fraction": _frac(e), "zero_mode_fix": z, "scale": sym.real(e, "b")}))
       for D in DIMS for z in (True, False)],
      lambda D, N, derivative_operator, dealiasing_fraction, zero_mode_fix=True, scale=1.0:
      dict(SN.base_fields(D, N, dealiasing_fraction), derivative_operator=derivative_operator, zero_mode_fix=zero_mode_fix, scale=scale))
Contract(Q + "_gradient_norm.GradientNormNonlinearFun.__call__", props=P_NL,
         cases=[Case(f"D={D},zero_mode_fix={z}", lambda e, D=D, z=z: (_nl_self(e, NF.GradientNormNonlinearFun, D, extra=_gn_extra(z))[:2], {}))
                for D in DIMS for z in (True, False)],
         spec=lambda self, u_hat: SN.gradient_norm(self, u_hat))


# polynomial
def _poly_coeffs(e, n):
    return tuple(sym.real(e, f"c{j}") for j in range(n))


_ctor(Q + "_polynomial.PolynomialNonlinearFun", NF.PolynomialNonlinearFun,
      [Case(f"D={D},ncoef={n}", lambda e, D=D, n=n: ((D, sym.integer(e, "N", lo=1)), {"dealiasing_fraction": _frac(e), "coefficients": _poly_coeffs(e, n)}))
       for D in DIMS for n in (0, 1, 3, 4)],
      lambda D, N, dealiasing_fraction, coefficients: dict(SN.base_fields(D, N, dealiasing_fraction), coefficients=coefficients))
Contract(Q + "_polynomial.PolynomialNonlinearFun.__call__", props=P_NL,
         cases=[Case(f"D={D},ncoef={n}", lambda e, D=D, n=n: (_nl_self(e, NF.PolynomialNonlinearFun, D, dop=False, extra=lambda e, D, N, f: {"coefficients": _poly_coeffs(e, n)})[:2], {}))
                for D in DIMS for n in (2, 3, 4, 5)],
         spec=lambda self, u_hat: SN.polynomial(self, u_hat))


# general nonlinear
def _gen_fields(D, N, derivative_operator, dealiasing_fraction, scale_list=(0.0, -1.0, 0.0), zero_mode_fix=True):
    base = SN.base_fields(D, N, dealiasing_fraction)
    return dict(base,
                square_nonlinear_fun=ObjSpec(NF.PolynomialNonlinearFun, dict(base, coefficients=[0.0, 0.0, scale_list[0]])),
                convection_nonlinear_fun=ObjSpec(NF.ConvectionNonlinearFun, dict(base, derivative_operator=derivative_operator, scale=-scale_list[1], single_channel=True, conservative=True)),
                gradient_norm_nonlinear_fun=ObjSpec(NF.GradientNormNonlinearFun, dict(base, derivative_operator=derivative_operator, scale=-scale_list[2], zero_mode_fix=zero_mode_fix)))


def _gen_ctor_cases():
    out = []
    for D in DIMS:
        for n in (3, 2, 4):
            for z in ((True, False) if n == 3 else (True,)):
                def build(e, D=D, n=n, z=z):
                    N, dop = _dopN(e, D)
                    return (D, N), {"derivative_operator": dop, "dealiasing_fraction": _frac(e), "scale_list": tuple(sym.real(e, f"b{j}") for j in range(n)), "zero_mode_fix": z}
                out.append(Case(f"D={D},len(scale_list)={n},zero_mode_fix={z}", build))
    return out


Contract(Q + "_general_nonlinear.GeneralNonlinearFun", props=P_NL | {"C20"}, cases=_gen_ctor_cases(),
         raises=[(ValueError, lambda D, N, derivative_operator, dealiasing_fraction, scale_list=(0.0, -1.0, 0.0), zero_mode_fix=True: len(scale_list) != 3)],
         spec=lambda *a, **k: ObjSpec(NF.GeneralNonlinearFun, _gen_fields(*a, **k)))


def _gen_self(e, D, z):
    N = sym.integer(e, "N", lo=1)
    mask = sym.array(e, "mask", (1,) + wshape(D, N), "bool")
    dop = sym.array(e, "dop", (D,) + wshape(D, N), "complex")
    base = {"num_spatial_dims": D, "num_points": N, "dealiasing_mask": mask}
    f = dict(base,
             square_nonlinear_fun=make_instance(NF.PolynomialNonlinearFun, dict(base, coefficients=[0.0, 0.0, sym.real(e, "b0")])),
             convection_nonlinear_fun=make_instance(NF.ConvectionNonlinearFun, dict(base, derivative_operator=dop, scale=sym.real(e, "b1"), single_channel=True, conservative=True)),
             gradient_norm_nonlinear_fun=make_instance(NF.GradientNormNonlinearFun, dict(base, derivative_operator=dop, scale=sym.real(e, "b2"), zero_mode_fix=z)))
    u = sym.array(e, "uh", (1,) + wshape(D, N), "complex")
    return make_instance(NF.GeneralNonlinearFun, f), u


Contract(Q + "_general_nonlinear.GeneralNonlinearFun.__call__", props=P_NL,
         cases=[Case(f"D={D},zero_mode_fix={z}", lambda e, D=D, z=z: (_gen_self(e, D, z), {})) for D in DIMS for z in (True, False)],
         spec=lambda self, u_hat: SN.general_nonlinear(self, u_hat))


# vorticity convection (2d)
def _vort_fields(D, N, convection_scale=1.0, derivative_operator=None, dealiasing_fraction=None):
    return dict(SN.base_fields(D, N, dealiasing_fraction), convection_scale=convection_scale, derivative_operator=derivative_operator,
                inv_laplacian=SN.inv_laplacian_guarded(derivative_operator, 1))


def _vort_ctor_cases(kol=False):
    out = []
    for D in DIMS:
        def build(e, D=D):
            N, dop = _dopN(e, D)
            kw = {"convection_scale": sym.real(e, "b"), "derivative_operator": dop, "dealiasing_fraction": _frac(e)}
            if kol:
                kw.update(injection_mode=sym.integer(e, "kinj", lo=1), injection_scale=sym.real(e, "gamma"))
            return (D, N), kw
        out.append(Case(f"D={D}", build))
    return out


Contract(Q + "_vorticity_convection.VorticityConvection2d", props=P_NL | {"C20"}, cases=_vort_ctor_cases(),
         raises=[(ValueError, lambda D, N, convection_scale=1.0, derivative_operator=None, dealiasing_fraction=None: D != 2)],
         spec=lambda *a, **k: ObjSpec(NF.VorticityConvection2d, _vort_fields(*a, **k)))


def _vort_self(e, cls, kol=False):
    def extra(e, D, N, f):
        x = {"convection_scale": sym.real(e, "b"), "inv_laplacian": sym.array(e, "invlap", (1,) + wshape(D, N), "complex")}
        if kol:
            x["injection"] = sym.array(e, "inj", (1,) + wshape(D, N), "complex")
        return x
    return _nl_self(e, cls, 2, extra=extra, u_channels=1)[:2]


Contract(Q + "_vorticity_convection.VorticityConvection2d.__call__", props=P_NL,
         cases=[Case("D=2", lambda e: (_vort_self(e, NF.VorticityConvection2d), {}))],
         spec=lambda self, u_hat: SN.vorticity_convection(self, u_hat))


def _inj2d(D, N, dop, k, gamma):
    """C12: vorticity forcing -k (2 pi/L) gamma cos(k (2 pi/L) x_1): by the single-mode spectrum (A5, C04) its rfft is
    amplitude x coef_extraction scaling at the stored mode (0, k); (2 pi/L) k = Im d_1 at that mode"""
    sc = S.scaling_array(D, N, *S.SCALING_DENOMS["coef_extraction"])
    kt, g = T(k), T(gamma)

    def fn(idx):
        s = idx[1:]
        at = smt.band(smt.req(S.k_of(0, s, D, N), 0), smt.req(S.k_of(1, s, D, N), kt))
        amp = smt.rmul(smt.rneg(g), dop.at_((1,) + s).im)
        return smt.cite(at, CX(smt.rmul(amp, sc.at_((0,) + s)), 0), CX(0, 0))
    return arr((1,) + wshape(D, N), fn, "complex")


Contract(Q + "_vorticity_convection.VorticityConvection2dKolmogorov", props={"C12", "C08", "C20"}, cases=_vort_ctor_cases(kol=True),
         raises=[(ValueError, lambda D, N, convection_scale=1.0, injection_mode=4, injection_scale=1.0, derivative_operator=None, dealiasing_fraction=None: D != 2)],
         spec=lambda D, N, convection_scale=1.0, injection_mode=4, injection_scale=1.0, derivative_operator=None, dealiasing_fraction=None:
         ObjSpec(NF.VorticityConvection2dKolmogorov, dict(_vort_fields(D, N, convection_scale, derivative_operator, dealiasing_fraction),
                                                          injection=_inj2d(D, N, derivative_operator, injection_mode, injection_scale))))
Contract(Q + "_vorticity_convection.VorticityConvection2dKolmogorov.__call__", props={"C12", "C08"},
         cases=[Case("D=2", lambda e: (_vort_self(e, NF.VorticityConvection2dKolmogorov, kol=True), {}))],
         spec=lambda self, u_hat: SN.vorticity_convection(self, u_hat) + self.injection)


# Leray
def _leray_fields(D, N, derivative_operator, order=2):
    def inv(idx):
        lap = smt.csub(CX(0, 0), CX(0, 0))
        from specs.base import csum
        lap = csum([smt.cpow_int(derivative_operator.at_((j,) + idx[1:]), order) for j in range(derivative_operator.shape[0])]) if order else CX(1, 0)
        is0 = smt.band(smt.req(lap.re, 0), smt.req(lap.im, 0))
        with values.guard(smt.bnot(is0)):
            iv = smt.cdiv(CX(1, 0), lap)
        return smt.cite(is0, CX(0, 0), iv)
    return dict(SN.base_fields(D, N, None), derivative_operator=derivative_operator,
                inv_laplacian=arr((1,) + tuple(derivative_operator.shape[1:]), inv, "complex"))


Contract(Q + "_leray.Leray", props={"C03", "C09", "C10"},
         cases=[Case(f"D={D},order={o}", lambda e, D=D, o=o: ((D, _dopN(e, D)[0]), {"derivative_operator": _dopN(e, D)[1], "order": o})) for D in DIMS for o in (2, 4)],
         spec=lambda D, N, derivative_operator, order=2: ObjSpec(NF.Leray, _leray_fields(D, N, derivative_operator, order)))


def _leray_self(e, D):
    obj, uh, N = _nl_self(e, NF.Leray, D, masked=False, u_channels=D,
                          extra=lambda e, D, N, f: {"inv_laplacian": sym.array(e, "invlap", (1,) + wshape(D, N), "complex")})
    return obj, uh


Contract(Q + "_leray.Leray.__call__", props={"C03", "C09", "C10"},
         cases=[Case(f"D={D}", lambda e, D=D: (_leray_self(e, D), {})) for D in (2, 3)],
         spec=lambda self, u_hat: SN.leray(self, u_hat))


# projected convection (3d)
Contract(Q + "_projected_convection._cross_product_3d", props={"C03", "C08", "C09", "C10"},
         cases=[Case(k, lambda e, k=k: ((sym.array(e, "a", (3,) + wshape(3, sym.integer(e, "N", lo=1)), k), sym.array(e, "b", (3,) + wshape(3, sym.integer(e, "N", lo=1)), k)), {}))
                for k in ("complex", "real")],
         spec=lambda a, b: SN.cross(a, b, "complex" if "complex" in (a.kind, b.kind) else "real"))


def _proj_fields(D, N, derivative_operator, dealiasing_fraction=2 / 3):
    return dict(SN.base_fields(D, N, dealiasing_fraction), derivative_operator=derivative_operator,
                leray_projection=ObjSpec(NF.Leray, _leray_fields(D, N, derivative_operator, 2)))


def _proj_ctor_cases(kol=False):
    out = []
    for D in DIMS:
        def build(e, D=D):
            N, dop = _dopN(e, D)
            kw = {"derivative_operator": dop, "dealiasing_fraction": _frac(e)}
            if kol:
                kw.update(injection_mode=sym.integer(e, "kinj", lo=1), injection_scale=sym.real(e, "gamma"))
            return (D, N), kw
        out.append(Case(f"D={D}", build))
    if not kol:
        def build_default(e):   # the documented default fraction (2/3): constructed without passing it
            N, dop = _dopN(e, 3)
            return (3, N), {"derivative_operator": dop}
        out.append(Case("D=3,documented default dealiasing fraction", build_default))
    return out


Contract(Q + "_projected_convection.ProjectedConvection3d", props=P_NL | {"C20"}, cases=_proj_ctor_cases(),
         raises=[(ValueError, lambda D, N, derivative_operator, dealiasing_fraction=2 / 3: D != 3)],
         spec=lambda *a, **k: ObjSpec(NF.ProjectedConvection3d, _proj_fields(*a, **k)))


def _proj_self(e, cls, kol=False):
    N = sym.integer(e, "N", lo=1)
    dop = sym.array(e, "dop", (3,) + wshape(3, N), "complex")
    ler = make_instance(NF.Leray, {"num_spatial_dims": 3, "num_points": N, "dealiasing_mask": None, "derivative_operator": dop,
                                   "inv_laplacian": sym.array(e, "invlap", (1,) + wshape(3, N), "complex")})
    f = {"num_spatial_dims": 3, "num_points": N, "dealiasing_mask": sym.array(e, "mask", (1,) + wshape(3, N), "bool"),
         "derivative_operator": dop, "leray_projection": ler}
    if kol:
        f["injection"] = sym.array(e, "inj", (3,) + wshape(3, N), "complex")
    return make_instance(cls, f), sym.array(e, "uh", (3,) + wshape(3, N), "complex")


Contract(Q + "_projected_convection.ProjectedConvection3d.__call__", props=P_NL,
         cases=[Case("D=3", lambda e: (_proj_self(e, NF.ProjectedConvection3d), {}))],
         spec=lambda self, u_hat: SN.projected_convection(self, u_hat))


def _inj3d(D, N, k, gamma):
    """C12: velocity forcing f_0 = gamma sin(k (2 pi/L) x_1), f_1 = f_2 = 0.  sin = (e^{i.} - e^{-i.})/(2i): by the
    single-mode spectrum (A5) the rfft has -i gamma * coef_extraction scaling at stored mode (0,+k,0) and +i gamma * ... at
    its conjugate partner (0,-k,0) on the non-halved axis, zero elsewhere"""
    sc = S.scaling_array(D, N, *S.SCALING_DENOMS["coef_extraction"])
    kt, g = T(k), T(gamma)

    def fn(idx):
        c, s = idx[0], idx[1:]
        base = smt.band(smt.req(S.k_of(0, s, D, N), 0), smt.req(S.k_of(2, s, D, N), 0))
        pos = smt.band(base, smt.req(S.k_of(1, s, D, N), kt))
        neg = smt.band(base, smt.req(S.k_of(1, s, D, N), smt.rneg(kt)))
        a = smt.rmul(g, sc.at_((0,) + s))
        ch0 = smt.cite(pos, CX(0, smt.rneg(a)), smt.cite(neg, CX(0, a), CX(0, 0)))
        if isinstance(c, int):
            return ch0 if c == 0 else CX(0, 0)
        return smt.cite(smt.req(c, 0), ch0, CX(0, 0))
    return arr((3,) + wshape(D, N), fn, "complex")


Contract(Q + "_projected_convection.ProjectedConvection3dKolmogorov", props={"C12", "C08", "C10", "C20"}, cases=_proj_ctor_cases(kol=True),
         raises=[(ValueError, lambda D, N, injection_mode=4, injection_scale=1.0, derivative_operator=None, dealiasing_fraction=None: D != 3)],
         requires=lambda D, N, injection_mode=4, injection_scale=1.0, derivative_operator=None, dealiasing_fraction=None:
         [("0 < 2*injection_mode < N (a resolved, non-Nyquist mode)", smt.band(smt.rgt(T(injection_mode), 0), smt.rlt(smt.rmul(2, T(injection_mode)), T(N))))],
         spec=lambda D, N, injection_mode=4, injection_scale=1.0, derivative_operator=None, dealiasing_fraction=None:
         ObjSpec(NF.ProjectedConvection3dKolmogorov, dict(_proj_fields(D, N, derivative_operator, dealiasing_fraction),
                                                          injection=_inj3d(D, N, injection_mode, injection_scale))))
Contract(Q + "_projected_convection.ProjectedConvection3dKolmogorov.__call__", props={"C12", "C08", "C10"},
         cases=[Case("D=3", lambda e: (_proj_self(e, NF.ProjectedConvection3dKolmogorov, kol=True), {}))],
         spec=lambda self, u_hat: SN.projected_convection(self, u_hat) + self.injection)


# -------------------------------------------------------------------------------- reaction
R = "exponax.stepper.reaction."
Contract(R + "_cahn_hilliard.CahnHilliardNonlinearFun", props={"C03", "C09", "C02"},
         cases=[Case(f"D={D}", lambda e, D=D: ((D, _dopN(e, D)[0]), {"derivative_operator": _dopN(e, D)[1], "scale": sym.real(e, "b"), "dealiasing_fraction": _frac(e)})) for D in DIMS],
         spec=lambda D, N, derivative_operator, scale, dealiasing_fraction:
         ObjSpec(CahnHilliardNonlinearFun, dict(SN.base_fields(D, N, dealiasing_fraction), scale=scale, laplace_operator=S.laplace_operator(derivative_operator, 2))))
Contract(R + "_cahn_hilliard.CahnHilliardNonlinearFun.__call__", props={"C03", "C09", "C02"},
         cases=[Case(f"D={D}", lambda e, D=D: (_nl_self(e, CahnHilliardNonlinearFun, D, dop=False, u_channels=1,
                                                        extra=lambda e, D, N, f: {"scale": sym.real(e, "b"), "laplace_operator": sym.array(e, "lap", (1,) + wshape(D, N), "complex")})[:2], {})) for D in DIMS],
         spec=lambda self, u_hat: SN.cahn_hilliard(self, u_hat))

Contract(R + "_gray_scott.GrayScottNonlinearFun", props={"C03", "C02"},
         cases=[Case(f"D={D}", lambda e, D=D: ((D, sym.integer(e, "N", lo=1)), {"dealiasing_fraction": _frac(e), "feed_rate": sym.real(e, "f"), "kill_rate": sym.real(e, "k")})) for D in DIMS],
         spec=lambda D, N, dealiasing_fraction, feed_rate, kill_rate:
         ObjSpec(GrayScottNonlinearFun, dict(SN.base_fields(D, N, dealiasing_fraction), feed_rate=feed_rate, kill_rate=kill_rate)))
Contract(R + "_gray_scott.GrayScottNonlinearFun.__call__", props={"C03", "C02", "C20"},
         cases=[Case(f"D={D},C={C}", lambda e, D=D, C=C: (_nl_self(e, GrayScottNonlinearFun, D, dop=False, u_channels=C,
                                                                    extra=lambda e, D, N, f: {"feed_rate": sym.real(e, "f"), "kill_rate": sym.real(e, "k")})[:2], {}))
                for D in DIMS for C in (2, 1, 3)],
         raises=[(ValueError, lambda self, u_hat: u_hat.shape[0] != 2)],
         spec=lambda self, u_hat: SN.gray_scott(self, u_hat))

Contract(R + "_belousov_zhabotinsky.BelousovZhabotinskyNonlinearFun", props={"C03", "C02"},
         cases=[Case(f"D={D}", lambda e, D=D: ((D, sym.integer(e, "N", lo=1)), {"dealiasing_fraction": _frac(e)})) for D in DIMS],
         spec=lambda D, N, dealiasing_fraction: ObjSpec(BelousovZhabotinskyNonlinearFun, SN.base_fields(D, N, dealiasing_fraction)))
Contract(R + "_belousov_zhabotinsky.BelousovZhabotinskyNonlinearFun.__call__", props={"C03", "C02", "C20"},
         cases=[Case(f"D={D},C={C}", lambda e, D=D, C=C: (_nl_self(e, BelousovZhabotinskyNonlinearFun, D, dop=False, u_channels=C)[:2], {}))
                for D in DIMS for C in (3, 2)],
         raises=[(ValueError, lambda self, u_hat: u_hat.shape[0] != 3)],
         spec=lambda self, u_hat: SN.belousov_zhabotinsky(self, u_hat))
