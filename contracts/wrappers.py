"""Contracts for the trajectory utilities (C14), the BaseStepper methods (C01/C02/C20), Wave (C01/C11), Poisson (C05),
ForcedStepper (C12/C14) and RepeatedStepper (C14)."""
from __future__ import annotations

from fractions import Fraction

import jax.tree_util as jtu
import z3

import exponax as ex
from exponax._base_stepper import BaseStepper
from exponax._forced_stepper import ForcedStepper
from exponax._poisson import Poisson
from exponax._repeated_stepper import RepeatedStepper
from exponax.etdrk import ETDRK0, BaseETDRK
from exponax.stepper import Burgers, Wave
from specs import etdrk as SE
from specs import spectral as S
from specs import steppers as SS
from specs.base import T, arr, csum, kappa, pick, rsum, wshape
from symjnp import engine, ops, rules, smt, sym, values
from symjnp.contracts import Case, Contract, ObjSpec, make_instance
from symjnp.smt import CX, OutsideSubset
from symjnp.values import SArr, const_arr

U = "exponax._utils."
DIMS = (1, 2, 3)


# =============================================================================== rollout / repeat
def _state(e, leaves):
    """symbolic pytree state: one array, or a dict of two arrays of different rank"""
    if leaves == "complex":
        return sym.array(e, "u0", (sym.integer(e, "A", lo=1), sym.integer(e, "B", lo=1)), "complex")
    a = sym.array(e, "u0", (sym.integer(e, "A", lo=1), sym.integer(e, "B", lo=1)))
    if leaves == 1:
        return a
    return {"p": a, "q": sym.array(e, "v0", (sym.integer(e, "A2", lo=1),))}


class _Step:
    """abstract step function on pytrees (with optional aux argument): leaf-wise uninterpreted operators that may
    depend on every leaf of the state (and of aux)"""

    def __init__(self, name="G"):
        self.name = name

    def __call__(self, u, aux=None):
        if sym.CONCRETE_ABSTRACT[0]:  # replay mode: a fixed concrete step (same formula natively and in the shim)
            import jax.tree_util as _jtu
            extra = 0.0 if aux is None else 0.01 * sum(l.sum() for l in _jtu.tree_leaves(aux, is_leaf=lambda x: isinstance(x, SArr)))
            return _jtu.tree_map(lambda l: 0.5 * l * l + 0.1 + extra, u, is_leaf=lambda x: isinstance(x, SArr))
        leaves = [const_arr(l) for l in rules._leaves(u)] + ([const_arr(l) for l in rules._leaves(aux)] if aux is not None else [])
        out = []
        for li, leaf in enumerate(rules._leaves(u)):
            leaf = const_arr(leaf)

            def elem(idx, li=li, leaf=leaf):
                e = engine.cur()
                keys = []
                for l2 in leaves:
                    bv2 = ops.bound_vars("O", l2.ndim)
                    with ops.nested("O"):
                        el = l2.at_(tuple(bv2))
                    keys.append(ops.PAIR(smt.zr(el.re), smt.zr(el.im)) if isinstance(el, CX) else smt.zr(smt.R(el)))
                t = keys[0]
                for k in keys[1:]:
                    t = ops.PAIR(t, k)
                kp = ops.size_key(e, tuple(values.dim_term(d) for l in leaves for d in l.shape))
                bvs = ops.bound_vars("O", max(l.ndim for l in leaves))
                if leaf.kind == "complex":
                    parts = [ops.interner(e).get((f"{self.name}.{li}.{p}", kp), t, bvs, leaf.ndim, e)(tuple(idx)) for p in ("re", "im")]
                    return CX(parts[0], parts[1])
                return ops.interner(e).get((f"{self.name}.{li}", kp), t, bvs, leaf.ndim, e)(tuple(idx))
            out.append(SArr(leaf.shape, elem, leaf.kind))
        td = jtu.tree_structure(u, is_leaf=lambda x: isinstance(x, SArr))
        return jtu.tree_unflatten(td, out)


def _roll_cases(kind):
    out = []
    for leaves in (1, 2, "complex"):
        for takes_aux in ((False, True) if leaves != "complex" else (False,)):
            for const_aux in ((True, False) if takes_aux else (True,)):
                for inc in ((False, True) if kind == "rollout" else (None,)):
                    def build(e, leaves=leaves, takes_aux=takes_aux, const_aux=const_aux, inc=inc):
                        n = sym.integer(e, "n", lo=0)
                        g = _Step()
                        u0 = _state(e, leaves)
                        kw = {"takes_aux": takes_aux, "constant_aux": const_aux}
                        if inc is not None:
                            kw["include_init"] = inc
                        aux = None
                        if takes_aux:
                            aux = sym.array(e, "aux", (sym.integer(e, "Q", lo=1),) if const_aux else (n, sym.integer(e, "Q", lo=1)))
                        rule = rules.iteration_rule(g, "next" if kind == "rollout" else None, aux=aux, aux_constant=const_aux, aux_key="+aux" if takes_aux else "")
                        ctx = {"apply": (u0, aux) if takes_aux else (u0,), "apply_scan_rules": [rule]}
                        return (g, n), kw, ctx
                    lab = f"leaves={leaves},takes_aux={takes_aux},constant_aux={const_aux}" + (f",include_init={inc}" if inc is not None else "")
                    out.append(Case(lab, build))
    return out


def _rollout_spec(stepper_fn, n, include_init=False, takes_aux=False, constant_aux=True):
    """C14: entry i of a rollout is the (i+1)-fold application; with include_init the initial state is prepended"""
    def f(u0, aux=None):
        key = "+aux" if takes_aux else ""
        if include_init:
            return rules.trajectory(stepper_fn, u0, n + 1, first=0, aux_key=key)
        return rules.trajectory(stepper_fn, u0, n, first=1, aux_key=key)
    return f


def _repeat_spec(stepper_fn, n, takes_aux=False, constant_aux=True):
    """C14: repeat returns the n-fold application"""
    def f(u0, aux=None):
        return rules.iter_at(stepper_fn, u0, values.dim_term(n), "+aux" if takes_aux else "")
    return f


Contract(U + "rollout", props={"C14"}, cases=_roll_cases("rollout"), spec=_rollout_spec,
         requires=lambda stepper_fn, n, include_init=False, takes_aux=False, constant_aux=True: [("n >= 0", smt.rge(T(n), 0))])
Contract(U + "repeat", props={"C14"}, cases=_roll_cases("repeat"), spec=_repeat_spec,
         requires=lambda stepper_fn, n, takes_aux=False, constant_aux=True: [("n >= 0", smt.rge(T(n), 0))])


# ======================================================================== stack_sub_trajectories
def _sst_cases():
    out = []
    for leaves in (1, 2):
        def build(e, leaves=leaves):
            Tn = sym.integer(e, "T", lo=1)
            sub = sym.integer(e, "sub", lo=1)
            a = sym.array(e, "trj", (Tn, sym.integer(e, "A", lo=1)))
            trj = a if leaves == 1 else {"p": a, "q": sym.array(e, "trj2", (Tn, sym.integer(e, "A", lo=1), sym.integer(e, "B", lo=1)))}
            return (trj, sub), {}
        out.append(Case(f"leaves={leaves}", build))

    def bad(e):
        # (python's set() of symbolic ints is outside the subset: the unequal-length rejection is checked on concrete lengths)
        return ({"p": sym.array(e, "trj", (5, 3)), "q": sym.array(e, "trj2", (6, 3))}, sym.integer(e, "sub", lo=1)), {}
    out.append(Case("leaves=2,unequal lengths 5 and 6", bad))
    return out


def _sst_spec(trj, sub_len):
    """C14: every contiguous window in order: out[i, j] = trj[i + j], T - sub_len + 1 windows"""
    def one(leaf):
        leaf = const_arr(leaf)
        Tn = leaf.shape[0]
        nw = Tn - sub_len + 1

        def fn(idx):
            s = smt.radd(idx[0], idx[1])
            s = s if isinstance(s, int) else smt.norm(z3.simplify(s))
            return leaf.at_((s,) + tuple(idx[2:]))
        return SArr((nw, sub_len) + tuple(leaf.shape[1:]), fn, leaf.kind)
    return rules._tmap(one, trj)


def _sst_raises(trj, sub_len):
    ls = [const_arr(l).shape[0] for l in rules._leaves(trj)]
    uneq = False
    for l in ls[1:]:
        uneq = smt.bor(uneq, smt.rne(values.dim_term(l), values.dim_term(ls[0])))
    return smt.bor(uneq, smt.rgt(T(sub_len), values.dim_term(ls[0])))


Contract(U + "stack_sub_trajectories", props={"C14", "C20"}, cases=_sst_cases(), spec=_sst_spec,
         raises=[(ValueError, _sst_raises)])


# ============================================================================== BaseStepper methods
class _AbsIntegrator(BaseETDRK):
    """integrator whose step is an uninterpreted operator"""
    op: object

    def __init__(self):
        pass

    def step_fourier(self, u_hat):
        return self.op(u_hat)


def _abs_integrator():
    return make_instance(_AbsIntegrator, {"dt": 0.0, "_exp_term": None, "op": sym.AbstractOp("INTEG")})


def _base_self(e, D, cls=Burgers):
    N = sym.integer(e, "N", lo=1)
    C = sym.integer(e, "C", lo=1)
    obj = make_instance(cls, {"num_spatial_dims": D, "domain_extent": sym.pos_real(e, "L"), "num_points": N, "num_channels": C,
                              "dt": sym.real(e, "dt"), "dx": sym.pos_real(e, "dx"), "_integrator": _abs_integrator()})
    return obj, N, C


BQ = "exponax._base_stepper.BaseStepper."
P_BASE = {"C01", "C02", "C08", "C09", "C10", "C11", "C12", "C13", "C14", "C20"}
Contract(BQ + "step_fourier", props=P_BASE,
         cases=[Case(f"D={D}", lambda e, D=D: ((lambda o: (o[0], sym.array(e, "uh", (o[2],) + wshape(D, o[1]), "complex")))(_base_self(e, D)), {})) for D in DIMS],
         spec=lambda self, u_hat: self._integrator.step_fourier(u_hat))
def _sf_spec(self, uh):
    """what `self.step_fourier` is documented to do (the method is virtual: Wave has its own)"""
    if isinstance(self, Wave):
        return _wave_step_spec(self, uh)
    if not any("step_fourier" in vars(c) for c in type(self).__mro__ if c is not BaseStepper and isinstance(c, type) and issubclass(c, BaseStepper)):
        return self._integrator.step_fourier(uh)       # inherited: the integrator's step (contract of BaseStepper.step_fourier)
    raise OutsideSubset(f"{type(self).__name__} overrides step_fourier and has no contract for it")


def _step_spec(self, u):
    return S.ifft(_sf_spec(self, S.fft(u, self.num_spatial_dims)), self.num_spatial_dims, self.num_points)


Contract(BQ + "step", props=P_BASE,
         cases=[Case(f"D={D}", lambda e, D=D: ((lambda o: (o[0], sym.array(e, "u", (o[2],) + (o[1],) * D)))(_base_self(e, D)), {})) for D in DIMS],
         spec=_step_spec)


def _call_cases(mk_self, state_name="u"):
    out = []
    for D in DIMS:
        def ok(e, D=D):
            o, N, C = mk_self(e, D)
            return (o, sym.array(e, state_name, ((C,) if C is not None else (sym.integer(e, "Cf", lo=1),)) + (N,) * D)), {}
        out.append(Case(f"D={D},well-shaped", ok))

        def chan(e, D=D):
            o, N, C = mk_self(e, D)
            return (o, sym.array(e, state_name, (sym.integer(e, "C2", lo=1),) + (N,) * D)), {}
        out.append(Case(f"D={D},any channel count", chan))
        for ax in range(D):
            def pts(e, D=D, ax=ax):
                o, N, C = mk_self(e, D)
                shp = [N] * D
                shp[ax] = sym.integer(e, "N2", lo=1)
                return (o, sym.array(e, state_name, ((C,) if C is not None else (sym.integer(e, "Cf", lo=1),)) + tuple(shp))), {}
            out.append(Case(f"D={D},any length on axis {ax}", pts))

        def extra(e, D=D):
            o, N, C = mk_self(e, D)
            return (o, sym.array(e, state_name, (sym.integer(e, "Bt", lo=1),) + ((C,) if C is not None else (2,)) + (N,) * D)), {}
        out.append(Case(f"D={D},extra batch axis", extra))

        def missing(e, D=D):
            o, N, C = mk_self(e, D)
            return (o, sym.array(e, state_name, ((C,) if C is not None else (2,)) + (N,) * (D - 1))), {}
        out.append(Case(f"D={D},missing axis", missing))
    return out


def _shape_neq(shape, expected):
    if len(shape) != len(expected):
        return True
    c = False
    for a, b in zip(shape, expected):
        c = smt.bor(c, smt.rne(values.dim_term(a), values.dim_term(b)))
    return c


Contract(BQ + "__call__", props=P_BASE, cases=_call_cases(_base_self),
         raises=[(ValueError, lambda self, u: _shape_neq(u.shape, (self.num_channels,) + (self.num_points,) * self.num_spatial_dims))],
         spec=_step_spec)


# ============================================================================================ Wave
def _wave_fields(D, L, N, dt, c):
    wn = SS.wave_norm(D, L, N)

    def et(idx):
        th = smt.rmul(T(dt), smt.rmul(T(c), wn.at_((0,) + idx[1:])))
        return pick(idx[0], [CX(smt.rcos(th), smt.rsin(th)), CX(smt.rcos(th), smt.rneg(smt.rsin(th)))], "complex")
    integ = ObjSpec(ETDRK0, {"dt": dt, "_exp_term": arr((2,) + wshape(D, N), et, "complex")})
    return {"num_spatial_dims": D, "domain_extent": L, "num_points": N, "num_channels": 2, "dt": dt,
            "dx": values.SFloat(smt.rdiv(T(L), T(N))), "speed_of_sound": c, "wavenumber_norm": wn, "_integrator": integ}


Contract("exponax.stepper._wave.Wave", props={"C01", "C08", "C11", "C20"}, axiom_opts={"trig_pairs": True},
         cases=[Case(f"D={D}", lambda e, D=D: ((D, sym.pos_real(e, "L"), sym.integer(e, "N", lo=1), sym.real(e, "dt")), {"speed_of_sound": sym.real0d(e, "c")})) for D in DIMS],
         spec=lambda D, L, N, dt, speed_of_sound=1.0: ObjSpec(Wave, _wave_fields(D, L, N, dt, speed_of_sound)))


def _wave_self(e, D):
    L, N, dt, c = sym.pos_real(e, "L"), sym.integer(e, "N", lo=1), sym.real(e, "dt"), sym.real0d(e, "c", nonzero=True)
    obj = ObjSpec(Wave, _wave_fields(D, L, N, dt, c)).build()
    return obj, sym.array(e, "uh", (2,) + wshape(D, N), "complex")


def _wave_step_spec(self, u_hat):
    """C01: exact solution of h_t = v, v_t = c^2 Laplace(h) per Fourier mode, omega = c |kappa|:
         h' = cos(omega dt) h + sin(omega dt)/omega v,   v' = -omega sin(omega dt) h + cos(omega dt) v      (kappa != 0)
         h' = h + dt v,  v' = v                                                                          (kappa == 0)"""
    D, N, L, dt, c = self.num_spatial_dims, self.num_points, self.domain_extent, self.dt, self.speed_of_sound
    wn = SS.wave_norm(D, L, N)

    def fn(idx):
        s = idx[1:]
        k = wn.at_((0,) + s)
        om = smt.rmul(T(c), k)
        th = smt.rmul(T(dt), om)
        co, si = smt.rcos(th), smt.rsin(th)
        h, v = u_hat.at_((0,) + s), u_hat.at_((1,) + s)
        is0 = smt.req(k, 0)
        with values.guard(smt.bnot(is0)):
            h1 = smt.cadd(smt.cmul(CX(co, 0), h), smt.cmul(CX(smt.rdiv(si, om), 0), v))
        v1 = smt.cadd(smt.cmul(CX(smt.rneg(smt.rmul(om, si)), 0), h), smt.cmul(CX(co, 0), v))
        h0 = smt.cadd(h, smt.cmul(CX(T(dt), 0), v))
        hh = smt.cite(is0, h0, h1)
        vv = smt.cite(is0, v, v1)
        return pick(idx[0], [hh, vv], "complex")
    return arr(u_hat.shape, fn, "complex")


Contract("exponax.stepper._wave.Wave.step_fourier", props={"C01", "C08", "C11", "C14"},   # (C14: the wrappers sub-step an inner stepper through step_fourier)
         cases=[Case(f"D={D}", lambda e, D=D: (_wave_self(e, D), {})) for D in DIMS],
         requires=lambda self, u_hat: [("speed_of_sound != 0", smt.rne(T(self.speed_of_sound), 0))],
         spec=_wave_step_spec)


# ------------------------------------------------- every stepper class: step / __call__ agree with step_fourier
def _register_override_contracts():
    """BaseStepper.step is ifft o step_fourier o fft and __call__ is step behind the shape check (contracts above); the
    wrappers of C14 rely on that for EVERY inner stepper.  A stepper class that overrides `step` or `__call__` gets the
    same post-condition here (nothing is registered while no class overrides them -- the case on the pinned tree)."""
    import exponax.stepper as _ST
    from exponax.stepper import generic as _G, reaction as _RX
    from symjnp import contracts as _CT
    classes = sorted({c for mod in (_ST, _G, _RX) for c in vars(mod).values() if isinstance(c, type) and issubclass(c, BaseStepper) and c is not BaseStepper},
                     key=lambda c: (c.__module__, c.__qualname__))
    done = set()
    for cls in classes:
        for meth in ("step", "__call__"):
            owner = next(k for k in cls.__mro__ if meth in vars(k))
            if owner is BaseStepper or (owner, meth) in done:
                continue
            done.add((owner, meth))
            q = f"{owner.__module__}.{owner.__qualname__}.{meth}"
            if q in _CT.REGISTRY:
                continue

            def mk(e, D, owner=owner):
                if issubclass(owner, Wave):
                    obj, _ = _wave_self(e, D)
                    return obj, obj.num_points, 2
                return _base_self(e, D, cls=owner)

            spec = _step_spec
            if meth == "step":
                Contract(q, props={"C01", "C14", "C20"},
                         cases=[Case(f"D={D}", lambda e, D=D, mk=mk: ((lambda o: (o[0], sym.array(e, "u", (o[2],) + (o[1],) * D)))(mk(e, D)), {})) for D in DIMS], spec=spec)
            else:
                Contract(q, props={"C01", "C14", "C20"}, cases=_call_cases(mk),
                         raises=[(ValueError, lambda self, u: _shape_neq(u.shape, (self.num_channels,) + (self.num_points,) * self.num_spatial_dims))], spec=spec)


_register_override_contracts()


# ========================================================================================== Poisson
def _poisson_inv(D, L, N, order):
    def fn(idx):
        kap = [kappa(d, idx[1:], D, N, L) for d in range(D)]
        lap = SS.sym_laplace(kap, order)
        is0 = smt.band(smt.req(lap.re, 0), smt.req(lap.im, 0))
        with values.guard(smt.bnot(is0)):
            iv = smt.cdiv(CX(1, 0), lap)
        return smt.cite(is0, CX(0, 0), iv)
    return arr((1,) + wshape(D, N), fn, "complex")


Contract("exponax._poisson.Poisson", props={"C05", "C20"},
         cases=[Case(f"D={D},order={o}", lambda e, D=D, o=o: ((D, sym.pos_real(e, "L"), sym.integer(e, "N", lo=1)), {"order": o})) for D in DIMS for o in (2, 4, 3)],
         raises=[(ValueError, lambda D, L, N, order=2: order % 2 != 0)],
         spec=lambda D, L, N, order=2: ObjSpec(Poisson, {"num_spatial_dims": D, "domain_extent": L, "num_points": N,
                                                         "dx": values.SFloat(smt.rdiv(T(L), T(N))), "_inv_operator": _poisson_inv(D, L, N, order)}))


def _poisson_self(e, D):
    N = sym.integer(e, "N", lo=1)
    o = make_instance(Poisson, {"num_spatial_dims": D, "domain_extent": sym.pos_real(e, "L"), "num_points": N, "dx": sym.pos_real(e, "dx"),
                                "_inv_operator": sym.array(e, "inv", (1,) + wshape(D, N), "complex")})
    return o, N, None


PQ = "exponax._poisson.Poisson."
Contract(PQ + "step_fourier", props={"C05"},
         cases=[Case(f"D={D}", lambda e, D=D: ((lambda o: (o[0], sym.array(e, "fh", (sym.integer(e, "C", lo=1),) + wshape(D, o[1]), "complex")))(_poisson_self(e, D)), {})) for D in DIMS],
         spec=lambda self, f_hat: arr(f_hat.shape, lambda idx: smt.cneg(smt.cmul(self._inv_operator.at_((0,) + idx[1:]), f_hat.at_(idx))), "complex"))
Contract(PQ + "step", props={"C05"},
         cases=[Case(f"D={D}", lambda e, D=D: ((lambda o: (o[0], sym.array(e, "f", (sym.integer(e, "C", lo=1),) + (o[1],) * D)))(_poisson_self(e, D)), {})) for D in DIMS],
         spec=lambda self, f: S.ifft(_poisson_sf(self, S.fft(f, self.num_spatial_dims)), self.num_spatial_dims, self.num_points))
Contract(PQ + "__call__", props={"C05", "C20"}, cases=_call_cases(_poisson_self, "f"),
         raises=[(ValueError, lambda self, f: _shape_neq(f.shape[1:], (self.num_points,) * self.num_spatial_dims))],
         spec=lambda self, f: S.ifft(_poisson_sf(self, S.fft(f, self.num_spatial_dims)), self.num_spatial_dims, self.num_points))


# ==================================================================================== ForcedStepper
def _forced_self(e, D, inner_repeated=False):
    if inner_repeated:
        inner, N, C = _rep_self(e, D, "n_inner")
    else:
        inner, N, C = _base_self(e, D)
    return make_instance(ForcedStepper, {"stepper": inner}), N, C


FQ = "exponax._forced_stepper.ForcedStepper."
Contract("exponax._forced_stepper.ForcedStepper", props={"C12", "C14"},
         cases=[Case("any stepper", lambda e: ((_base_self(e, 1)[0],), {}))],
         spec=lambda stepper: ObjSpec(ForcedStepper, {"stepper": __import__("symjnp.contracts", fromlist=["Opaque"]).Opaque(stepper)}))


def _forced_state_cases(fourier):
    out = []
    for D in DIMS:
        for rep in (False, True):
            if rep and D == 3:
                continue

            def build(e, D=D, rep=rep):
                o, N, C = _forced_self(e, D, rep)
                shp = (C,) + (wshape(D, N) if fourier else (N,) * D)
                k = "complex" if fourier else "real"
                return (o, sym.array(e, "u", shp, k), sym.array(e, "f", shp, k)), {}
            out.append(Case(f"D={D}" + (",inner=RepeatedStepper" if rep else ""), build))
    return out


def _plus_dt(self, u, f):
    return u + self.stepper.dt * f


def _inner_step_fourier(stepper, u_hat):
    """spec of the inner stepper's step_fourier: the integrator's step (BaseStepper) / the n-fold sub-step (RepeatedStepper)"""
    if isinstance(stepper, RepeatedStepper):
        return _rep_sf(stepper, u_hat)
    return stepper._integrator.step_fourier(u_hat)


def _inner_step(stepper, u):
    """spec of BaseStepper.step: ifft(step_fourier(fft(u)))"""
    return S.ifft(_inner_step_fourier(stepper, S.fft(u, stepper.num_spatial_dims)), stepper.num_spatial_dims, stepper.num_points)


def _poisson_sf(self, f_hat):
    return arr(f_hat.shape, lambda idx: smt.cneg(smt.cmul(self._inv_operator.at_((0,) + idx[1:]), f_hat.at_(idx))), "complex")


def _rep_sf(self, u_hat):
    return rules.iter_at(self.stepper.step_fourier, u_hat, values.dim_term(self.num_sub_steps))


Contract(FQ + "step", props={"C12", "C14"}, cases=_forced_state_cases(False),
         spec=lambda self, u, f: _inner_step(self.stepper, _plus_dt(self, u, f)))
Contract(FQ + "step_fourier", props={"C12", "C14"}, cases=_forced_state_cases(True),
         spec=lambda self, u_hat, f_hat: _inner_step_fourier(self.stepper, _plus_dt(self, u_hat, f_hat)))
Contract(FQ + "__call__", props={"C12", "C14"}, cases=_forced_state_cases(False),
         spec=lambda self, u, f: _inner_step(self.stepper, _plus_dt(self, u, f)))


# ================================================================================== RepeatedStepper
def _rep_fields(stepper, n):
    from symjnp.contracts import Opaque
    return {"stepper": Opaque(stepper), "num_sub_steps": n, "dt": values.SFloat(smt.rmul(T(stepper.dt), T(n))),
            "num_spatial_dims": stepper.num_spatial_dims, "domain_extent": stepper.domain_extent, "num_points": stepper.num_points,
            "num_channels": stepper.num_channels, "dx": stepper.dx}


Contract("exponax._repeated_stepper.RepeatedStepper", props={"C14"},
         cases=[Case(f"D={D}", lambda e, D=D: ((_base_self(e, D)[0], sym.integer(e, "n", lo=0)), {})) for D in DIMS]
         + [Case(f"D={D},inner is itself a RepeatedStepper", lambda e, D=D: ((_rep_self(e, D, "n_inner")[0], sym.integer(e, "n", lo=0)), {})) for D in (1, 2)]
         + [Case("inner is a ForcedStepper-free plain stepper with symbolic dt", lambda e: ((_base_self(e, 1)[0], sym.integer(e, "n", lo=1)), {}))],
         spec=lambda stepper, num_sub_steps: ObjSpec(RepeatedStepper, _rep_fields(stepper, num_sub_steps)))


def _rep_self(e, D, nname="n"):
    inner, N, C = _base_self(e, D)
    n = sym.integer(e, nname, lo=0)
    f = _rep_fields(inner, n)
    f["stepper"] = inner
    return make_instance(RepeatedStepper, f), N, C


RQ = "exponax._repeated_stepper.RepeatedStepper."
Contract(RQ + "step_fourier", props={"C14"},
         cases=[Case(f"D={D}", lambda e, D=D: ((lambda o: (o[0], sym.array(e, "uh", (o[2],) + wshape(D, o[1]), "complex")))(_rep_self(e, D)), {})) for D in DIMS],
         spec=_rep_sf)
Contract(RQ + "step", props={"C14"},
         cases=[Case(f"D={D}", lambda e, D=D: ((lambda o: (o[0], sym.array(e, "u", (o[2],) + (o[1],) * D)))(_rep_self(e, D)), {})) for D in DIMS],
         spec=lambda self, u: S.ifft(_rep_sf(self, S.fft(u, self.num_spatial_dims)), self.num_spatial_dims, self.num_points))
Contract(RQ + "__call__", props={"C14", "C20"}, cases=_call_cases(_rep_self),
         raises=[(ValueError, lambda self, u: _shape_neq(u.shape, (self.num_channels,) + (self.num_points,) * self.num_spatial_dims))],
         spec=lambda self, u: S.ifft(_rep_sf(self, S.fft(u, self.num_spatial_dims)), self.num_spatial_dims, self.num_points))
