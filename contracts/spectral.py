"""Sidecar contracts for exponax._spectral (shared foundation of almost every property)."""
from __future__ import annotations

import z3

from specs import spectral as S
from specs.base import T, wshape
from symjnp import smt, sym, values
from symjnp.contracts import Case, Contract
from symjnp.values import SArr, SInt

M = "exponax._spectral."
DIMS = (1, 2, 3)
ALL = {"C01", "C02", "C03", "C04", "C05", "C08", "C09", "C10", "C11", "C12", "C13", "C15", "C16", "C17", "C18", "C20"}


def grid(e):
    return sym.integer(e, "N", lo=1)


def _cases_DN(extra=lambda e, D: ((), {}), dims=DIMS, labels=None):
    out = []
    for D in dims:
        def build(e, D=D):
            N = grid(e)
            a, kw = extra(e, D)
            return (D, N) + tuple(a), kw
        out.append(Case(f"D={D}", build))
    return out


# ------------------------------------------------------------------ wavenumbers
def _wn_cases():
    out = []
    for D in DIMS:
        for ix in ("ij", "xy"):
            out.append(Case(f"D={D},indexing={ix}", lambda e, D=D, ix=ix: ((D, grid(e)), {"indexing": ix})))
    return out


Contract(M + "build_wavenumbers", cases=_wn_cases(), props=ALL,
         spec=lambda D, N, indexing="ij": S.wavenumbers(D, N, indexing))


def _swn_cases():
    out = []
    for D in DIMS:
        for ix in ("ij", "xy"):
            out.append(Case(f"D={D},indexing={ix}", lambda e, D=D, ix=ix: ((D, sym.pos_real(e, "L"), grid(e)), {"indexing": ix})))
    return out


Contract(M + "build_scaled_wavenumbers", cases=_swn_cases(), props=ALL,
         requires=lambda D, L, N, indexing="ij": [("domain_extent != 0", smt.rne(T(L), 0))],
         spec=lambda D, L, N, indexing="ij": S.scaled_wavenumbers(D, L, N, indexing))

Contract(M + "build_derivative_operator", cases=_swn_cases(), props=ALL,
         requires=lambda D, L, N, indexing="ij": [("domain_extent != 0", smt.rne(T(L), 0))],
         spec=lambda D, L, N, indexing="ij": S.derivative_operator(D, L, N, indexing))


# ------------------------------------------------------------------- operators
def _dop(e, D, C=None):
    N = grid(e)
    return sym.array(e, "dop", (D if C is None else C,) + wshape(D, N), "complex")


def _lap_cases():
    out = []
    for D in DIMS:
        for order in range(0, 9):
            out.append(Case(f"D={D},order={order}", lambda e, D=D, order=order: ((_dop(e, D),), {"order": order})))
    return out


Contract(M + "build_laplace_operator", cases=_lap_cases(), props=ALL - {"C04", "C17"},
         raises=[(ValueError, lambda dop, order=2: order % 2 != 0)],
         spec=lambda dop, order=2: S.laplace_operator(dop, order))


def _gip_cases():
    out = []
    for D in DIMS:
        for order in range(0, 8):
            out.append(Case(f"D={D},order={order}", lambda e, D=D, order=order: ((_dop(e, D), sym.vector(e, "c", D)), {"order": order})))
        for wrong in sorted({1, 2, 3, 4} - {D}):
            out.append(Case(f"D={D},len(velocity)={wrong}", lambda e, D=D, w=wrong: ((_dop(e, D), sym.vector(e, "c", w)), {"order": 1})))
    return out


Contract(M + "build_gradient_inner_product_operator", cases=_gip_cases(), props=ALL - {"C04", "C17"},
         raises=[(ValueError, lambda dop, velocity, order=1: order % 2 != 1 or tuple(velocity.shape) != (dop.shape[0],))],
         spec=lambda dop, velocity, order=1: S.gradient_inner_product_operator(dop, velocity, order))


# ---------------------------------------------------------------- shape helpers
Contract(M + "space_indices", cases=[Case(f"D={D}", lambda e, D=D: ((D,), {})) for D in DIMS], props=ALL,
         spec=lambda D: tuple(range(-D, 0)))
Contract(M + "spatial_shape", cases=_cases_DN(), props=ALL, spec=lambda D, N: (N,) * D)
Contract(M + "wavenumber_shape", cases=_cases_DN(), props=ALL, spec=lambda D, N: wshape(D, N))


# ------------------------------------------------------------------------ masks
def _lp_cases():
    out = []
    for D in DIMS:
        for sep in (True, False):
            for ix in ("ij", "xy"):
                out.append(Case(f"D={D},axis_separate={sep},indexing={ix}",
                                lambda e, D=D, sep=sep, ix=ix: ((D, grid(e)), {"cutoff": sym.real(e, "cutoff"), "axis_separate": sep, "indexing": ix})))
    return out


Contract(M + "low_pass_filter_mask", cases=_lp_cases(), props={"C03", "C04", "C08", "C09", "C15", "C16", "C18"},
         spec=lambda D, N, cutoff, axis_separate=True, indexing="ij": S.low_pass_mask(D, N, cutoff, axis_separate, indexing))

Contract(M + "oddball_filter_mask", cases=_cases_DN(), props={"C04", "C15"},
         spec=lambda D, N: S.oddball_mask(D, N))


# --------------------------------------------------------------- scaling arrays
def _sc_cases():
    out = []
    for D in DIMS:
        for rd in (1, 2):
            for od in (1, 2):
                for ix in ("ij", "xy"):
                    out.append(Case(f"D={D},right={rd},others={od},indexing={ix}",
                                    lambda e, D=D, rd=rd, od=od, ix=ix: ((D, grid(e)), {"right_most_scaling_denominator": rd, "others_scaling_denominator": od, "indexing": ix})))
    return out


SC_PROPS = {"C04", "C12", "C15", "C16", "C17", "C18"}
Contract(M + "_build_scaling_array", cases=_sc_cases(), props=SC_PROPS,
         spec=lambda D, N, right_most_scaling_denominator, others_scaling_denominator, indexing="ij":
         S.scaling_array(D, N, right_most_scaling_denominator, others_scaling_denominator, indexing))


def _bsa_cases():
    out = []
    for D in DIMS:
        for mode in ("norm_compensation", "reconstruction", "coef_extraction", "bogus"):
            for ix in ("ij", "xy"):
                out.append(Case(f"D={D},mode={mode},indexing={ix}", lambda e, D=D, mode=mode, ix=ix: ((D, grid(e)), {"mode": mode, "indexing": ix})))
    return out


Contract(M + "build_scaling_array", cases=_bsa_cases(), props=SC_PROPS | {"C20"},
         raises=[(ValueError, lambda D, N, mode, indexing="ij": mode not in S.SCALING_DENOMS)],
         spec=lambda D, N, mode, indexing="ij": S.scaling_array(D, N, *S.SCALING_DENOMS[mode], indexing))

Contract(M + "get_modes_slices", cases=_cases_DN(), props={"C04", "C15"}, spec=lambda D, N: S.modes_slices(D, N))
