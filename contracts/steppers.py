"""Constructor contracts (representation invariants) for every stepper class, table driven.

For each class the post-condition states: the base fields, and `_integrator` is the ETDRK object of the requested
order built from  (dt, sigma_doc(kappa(idx)) per mode, the documented nonlinear term with the documented parameters).
The real `__init__` chain (subclass -> ... -> BaseStepper.__init__, `_build_linear_operator`, `_build_nonlinear_fun`)
is executed; `_spectral` helpers, the ETDRK classes, the nonlinear-function classes and the conversion utilities are
replaced by their contracts."""
from __future__ import annotations

import inspect
import types

import z3

import exponax as ex
from exponax import nonlin_fun as _NFmod
from exponax.etdrk import ETDRK0, ETDRK1, ETDRK2, ETDRK3, ETDRK4
from exponax.stepper import generic as G
from exponax.stepper import reaction as RX
from exponax.stepper.reaction._belousov_zhabotinsky import BelousovZhabotinsky, BelousovZhabotinskyNonlinearFun
from exponax.stepper.reaction._cahn_hilliard import CahnHilliardNonlinearFun
from exponax.stepper.reaction._gray_scott import GrayScottNonlinearFun
from specs import etdrk as SE
from specs import nonlin as SN
from specs import spectral as S
from specs import steppers as SS
from specs.base import T, arr, csum, kappa, wshape
from symjnp import smt, sym, values
from symjnp.contracts import Case, Contract, ObjSpec
from symjnp.smt import CX
from symjnp.values import SArr

NF = types.SimpleNamespace(**{n: getattr(_NFmod, n) for n in dir(_NFmod) if not n.startswith("_")})
ET = {0: ETDRK0, 1: ETDRK1, 2: ETDRK2, 3: ETDRK3, 4: ETDRK4}
DIMS = (1, 2, 3)
BASE_FIELDS = {"num_spatial_dims", "domain_extent", "num_points", "num_channels", "dt", "dx", "_integrator"}
P_LIN = {"C01", "C08", "C09", "C11", "C13", "C20"}
P_SEMI = {"C02", "C03", "C08", "C09", "C13", "C20"}   # (C03: the stepper constructors decide which fraction / scale / flags reach the nonlinear term)

TABLE = []  # entries, also used by the level-2 lemmas

# documented defaults (class docstrings: "Default: 2/3" -- Orszag's rule for quadratic terms; "Default is 1/2 because
# the default polynomial has a cubic term"; "num_circle_points ... Default: 16", "circle_radius ... Default: 1.0")
from fractions import Fraction  # noqa: E402

DOC_DEFAULTS = {"dealiasing_fraction": Fraction(2, 3), "num_circle_points": 16, "circle_radius": 1.0}
CUBIC_BY_DEFAULT = {"AllenCahn", "SwiftHohenberg", "CahnHilliard", "GrayScott"}


def _dim_only(cond):
    """does the rejection condition depend on the dimension alone (2-d only / 3-d only classes)?"""
    try:
        return isinstance(cond({"num_spatial_dims": 0}), bool)
    except Exception:
        return False


# documented defaults of the structural flags (class docstrings "Default: False" / "Default: `False`"; the conservative
# Kuramoto-Sivashinsky stepper documents `conservative` "Default: True"): which FORM of the equation a stepper built
# without options solves -- C09 (conservation form), C01 (symbol with / without spatial mixing), C13 (equivalences)
_CONV_FLAGS = {"single_channel": False, "conservative": False}
FLAG_DEFAULTS = {
    "Dispersion": {"advect_on_diffusion": False}, "HyperDiffusion": {"diffuse_on_diffuse": False},
    "Burgers": _CONV_FLAGS, "GeneralConvectionStepper": _CONV_FLAGS, "NormalizedConvectionStepper": _CONV_FLAGS,
    "DifficultyConvectionStepper": _CONV_FLAGS,
    "KortewegDeVries": dict(_CONV_FLAGS, advect_over_diffuse=False, diffuse_over_diffuse=False),
    "KuramotoSivashinskyConservative": {"single_channel": False, "conservative": True},
}


def documented_defaults(cls):
    d = dict(DOC_DEFAULTS)
    if cls.__name__ in CUBIC_BY_DEFAULT:
        d["dealiasing_fraction"] = Fraction(1, 2)
    if cls.__name__ == "BelousovZhabotinsky":
        d.pop("dealiasing_fraction")   # (its docstring states no default fraction and C03 does not list it)
    d.update(FLAG_DEFAULTS.get(cls.__name__, {}))
    return d


def _frac(e):
    return sym.real(e, "frac", lo=0, lo_strict=True, hi=1)


def _vec(v, D):
    """velocity-like parameter -> list of D R-values (float: isotropic, array: per axis)"""
    if isinstance(v, SArr):
        return [smt.R(v.at_((d,))) for d in range(D)]
    return [T(v)] * D


def _mat(a, D):
    if isinstance(a, SArr):
        if a.ndim == 1:
            return [[smt.R(a.at_((i,))) if i == j else 0 for j in range(D)] for i in range(D)]
        return [[smt.R(a.at_((i, j))) for j in range(D)] for i in range(D)]
    return [[T(a) if i == j else 0 for j in range(D)] for i in range(D)]


def _param_array(kind, e, name, D):
    if kind == "scalar":
        return sym.real(e, name)
    if kind == "vector":
        return sym.vector(e, name, D)
    return sym.matrix(e, name, D, D)


# ------------------------------------------------------------------------- nonlinear-term descriptors
def nl_zero(p, D, N, dop):
    return ObjSpec(NF.ZeroNonlinearFun, SN.base_fields(D, N, None))


def nl_convection(scale_key="convection_scale"):
    def f(p, D, N, dop):
        return ObjSpec(NF.ConvectionNonlinearFun, dict(SN.base_fields(D, N, p["dealiasing_fraction"]), derivative_operator=dop,
                                                       scale=p[scale_key], single_channel=p["single_channel"], conservative=p["conservative"]))
    return f


def nl_gradient_norm(scale_key):
    def f(p, D, N, dop):
        return ObjSpec(NF.GradientNormNonlinearFun, dict(SN.base_fields(D, N, p["dealiasing_fraction"]), derivative_operator=dop,
                                                         zero_mode_fix=True, scale=p[scale_key]))
    return f


def nl_polynomial(coeffs):
    def f(p, D, N, dop):
        return ObjSpec(NF.PolynomialNonlinearFun, dict(SN.base_fields(D, N, p["dealiasing_fraction"]), coefficients=coeffs(p)))
    return f


def nl_general(key):
    def f(p, D, N, dop):
        from contracts.nonlin import _gen_fields
        return ObjSpec(NF.GeneralNonlinearFun, _gen_fields(D, N, dop, p["dealiasing_fraction"], p[key], True))
    return f


def nl_vorticity(scale_key, kolmogorov=False):
    def f(p, D, N, dop):
        from contracts.nonlin import _inj2d, _vort_fields
        fields = _vort_fields(D, N, p[scale_key], dop, p["dealiasing_fraction"])
        if kolmogorov:
            fields["injection"] = _inj2d(D, N, dop, p["injection_mode"], p["injection_scale"])
            return ObjSpec(NF.VorticityConvection2dKolmogorov, fields)
        return ObjSpec(NF.VorticityConvection2d, fields)
    return f


def nl_projected(kolmogorov=False):
    def f(p, D, N, dop):
        from contracts.nonlin import _inj3d, _proj_fields
        fields = _proj_fields(D, N, dop, p["dealiasing_fraction"])
        if kolmogorov:
            fields["injection"] = _inj3d(D, N, p["injection_mode"], p["injection_scale"])
            return ObjSpec(NF.ProjectedConvection3dKolmogorov, fields)
        return ObjSpec(NF.ProjectedConvection3d, fields)
    return f


# ------------------------------------------------------------------------------------- generic builder
def expected(entry, p):
    D, N = p["num_spatial_dims"], p["num_points"]
    L = p.get("domain_extent", 1.0)
    dt = p.get("dt", 1.0)
    order = p.get("order", 0) if not entry.get("linear") else 0
    if "order_fixed" in entry:
        order = entry["order_fixed"]
    C = entry["channels"](p)
    dop = S.derivative_operator(D, L, N)
    Cl = entry.get("lin_channels", lambda p: 1)(p)

    def sig(idx):
        kap = [kappa(d, idx[1:], D, N, L) for d in range(D)]
        return entry["sigma"](idx[0], kap, p)
    Lop = arr((Cl,) + wshape(D, N), sig, "complex")
    nl = entry["nonlin"](p, D, N, dop)
    integ = ObjSpec(ET[order], SE.fields(order, dt, Lop, nl, p.get("num_circle_points", 16), p.get("circle_radius", 1.0), lambda x: x))
    f = {"num_spatial_dims": D, "domain_extent": L, "num_points": N, "num_channels": C, "dt": dt,
         "dx": values.SFloat(smt.rdiv(T(L), T(N))), "_integrator": integ}
    cls = entry["cls"]
    for name in getattr(cls, "__dataclass_fields__", {}):
        if name in BASE_FIELDS or name in entry.get("skip_fields", ()):
            continue
        if name in entry.get("own", {}):
            f[name] = entry["own"][name](p)
        elif name in p and not isinstance(p[name], SArr):
            f[name] = p[name]
    return ObjSpec(cls, f)


def register(q, cls, *, params, sigma, channels=lambda p: 1, nonlin=nl_zero, linear=False, dims=DIMS, props=None,
             variants=({},), normalized=False, raises=(), orders=None, own=None, skip_fields=(), lin_channels=None,
             requires=None, extra_kw=None):
    entry = dict(q=q, cls=cls, params=params, sigma=sigma, channels=channels, nonlin=nonlin, linear=linear, dims=dims,
                 variants=variants, normalized=normalized, own=own or {}, skip_fields=skip_fields)
    if lin_channels:
        entry["lin_channels"] = lin_channels
    TABLE.append(entry)
    sig = inspect.signature(cls)
    if orders is None:
        orders = (None,) if linear else (0, 1, 2, 3, 4)
    cases = []
    for D in dims:
        for v in variants:
            for o in orders:
                def build(e, D=D, v=v, o=o):
                    N = sym.integer(e, "N", lo=1)
                    kw = dict(params(e, D, v))
                    kw.update(v.get("kw", {}))
                    if o is not None:
                        kw["order"] = o
                    if v.get("contour"):
                        kw["num_circle_points"] = sym.integer(e, "M", lo=1)
                        kw["circle_radius"] = sym.pos_real(e, "r")
                    if normalized:
                        return (), dict(num_spatial_dims=D, num_points=N, **kw)
                    return (D, sym.pos_real(e, "L"), N, sym.real(e, "dt")), kw
                lab = f"D={D}" + "".join(f",{k}={val}" for k, val in v.items() if k not in ("kw",)) + (f",order={o}" if o is not None else "")
                cases.append(Case(lab, build))
    pinned = {n for n in documented_defaults(cls) if n in sig.parameters}
    if pinned:
        # the options the properties rely on at their DOCUMENTED default (C03: 2/3 rule for quadratic, 1/2 for cubic
        # terms; C02: 16 contour points on the unit circle; C09/C01/C13: the structural flags): constructed WITHOUT
        # passing them, compared with the spec at the documented values
        D0 = next((D for D in reversed(dims) if not any(cond({"num_spatial_dims": D}) is True for _, cond in raises if _dim_only(cond))), dims[0])
        D0 = 2 if (D0 == 3 and 2 in dims and not any(cond({"num_spatial_dims": 2}) is True for _, cond in raises if _dim_only(cond))) else D0

        def build_defaults(e, D=D0, v=variants[0]):
            N = sym.integer(e, "N", lo=1)
            kw = {k: val for k, val in dict(params(e, D, v), **v.get("kw", {})).items() if k not in pinned}
            if normalized:
                return (), dict(num_spatial_dims=D, num_points=N, **kw)
            return (D, sym.pos_real(e, "L"), N, sym.real(e, "dt")), kw
        cases.append(Case(f"D={D0},documented defaults ({', '.join(sorted(pinned))})", build_defaults))

    def spec(*a, **k):
        ba = sig.bind(*a, **k)
        passed = set(ba.arguments) | set(ba.arguments.get("kwargs", {}))
        ba.apply_defaults()
        args = dict(ba.arguments)
        for name, val in documented_defaults(cls).items():
            if name in sig.parameters and name not in passed:
                args[name] = val      # (the documented value, NOT the default found in the code's signature)
        return expected(entry, args)

    def wrap(cond):
        def w(*a, **k):
            ba = sig.bind(*a, **k)
            ba.apply_defaults()
            return cond(dict(ba.arguments))
        return w
    rs = [(exc, wrap(cond)) for exc, cond in raises]
    if not linear:
        rs.append((NotImplementedError, wrap(lambda p: p.get("order", 0) not in (0, 1, 2, 3, 4))))
    Contract(q, props=props or (P_LIN if linear else P_SEMI), cases=cases, spec=spec, raises=rs,
             requires=(None if requires is None else wrap(requires)))
    return entry


# =========================================================================== linear steppers (C01)
ST = "exponax.stepper."
register(ST + "_advection.Advection", ex.stepper.Advection, linear=True,
         variants=({"velocity": "scalar"}, {"velocity": "vector"}),
         params=lambda e, D, v: {"velocity": _param_array(v["velocity"], e, "c", D)},
         sigma=lambda c, kap, p: SS.sym_advection(kap, _vec(p["velocity"], len(kap))), skip_fields=("velocity",))

register(ST + "_diffusion.Diffusion", ex.stepper.Diffusion, linear=True,
         variants=({"diffusivity": "scalar"}, {"diffusivity": "vector"}, {"diffusivity": "matrix"}),
         params=lambda e, D, v: {"diffusivity": _param_array(v["diffusivity"], e, "nu", D)},
         sigma=lambda c, kap, p: SS.sym_diffusion(kap, _mat(p["diffusivity"], len(kap))), skip_fields=("diffusivity",))

register(ST + "_advection_diffusion.AdvectionDiffusion", ex.stepper.AdvectionDiffusion, linear=True,
         variants=({"velocity": "scalar", "diffusivity": "scalar"}, {"velocity": "vector", "diffusivity": "vector"},
                   {"velocity": "vector", "diffusivity": "matrix"}, {"velocity": "scalar", "diffusivity": "matrix"}),
         params=lambda e, D, v: {"velocity": _param_array(v["velocity"], e, "c", D), "diffusivity": _param_array(v["diffusivity"], e, "nu", D)},
         sigma=lambda c, kap, p: smt.cadd(SS.sym_advection(kap, _vec(p["velocity"], len(kap))), SS.sym_diffusion(kap, _mat(p["diffusivity"], len(kap)))),
         skip_fields=("velocity", "diffusivity"))

register(ST + "_dispersion.Dispersion", ex.stepper.Dispersion, linear=True,
         variants=tuple({"dispersivity": k, "kw": {"advect_on_diffusion": a}, "mix": a} for k in ("scalar", "vector") for a in (False, True)),
         params=lambda e, D, v: {"dispersivity": _param_array(v["dispersivity"], e, "xi", D)},
         sigma=lambda c, kap, p: SS.sym_dispersion(kap, _vec(p["dispersivity"], len(kap)), p["advect_on_diffusion"]),
         skip_fields=("dispersivity",))

register(ST + "_hyper_diffusion.HyperDiffusion", ex.stepper.HyperDiffusion, linear=True,
         variants=tuple({"kw": {"diffuse_on_diffuse": a}, "mix": a} for a in (False, True)),
         params=lambda e, D, v: {"hyper_diffusivity": sym.real(e, "mu")},
         sigma=lambda c, kap, p: SS.sym_hyper_diffusion(kap, T(p["hyper_diffusivity"]), p["diffuse_on_diffuse"]))


def _coefs(e, n, name="a"):
    return tuple(sym.real(e, f"{name}{j}") for j in range(n))


LENS = (1, 2, 3, 4, 5)
register("exponax.stepper.generic._linear.GeneralLinearStepper", G.GeneralLinearStepper, linear=True,
         variants=tuple({"ncoef": n} for n in LENS + (7,)),
         params=lambda e, D, v: {"linear_coefficients": _coefs(e, v["ncoef"])},
         sigma=lambda c, kap, p: SS.sym_generic(kap, p["linear_coefficients"]))

register("exponax.stepper.generic._linear.NormalizedLinearStepper", G.NormalizedLinearStepper, linear=True, normalized=True,
         variants=tuple({"ncoef": n} for n in LENS),
         params=lambda e, D, v: {"normalized_linear_coefficients": _coefs(e, v["ncoef"], "al")},
         sigma=lambda c, kap, p: SS.sym_generic(kap, p["normalized_linear_coefficients"]),
         own={"linear_coefficients": lambda p: p["normalized_linear_coefficients"]})

register("exponax.stepper.generic._linear.DifficultyLinearStepper", G.DifficultyLinearStepper, linear=True, normalized=True,
         variants=tuple({"ncoef": n} for n in LENS),
         params=lambda e, D, v: {"linear_difficulties": _coefs(e, v["ncoef"], "ga")},
         sigma=lambda c, kap, p: SS.sym_generic(kap, SS.extract_coefficients(p["linear_difficulties"], p["num_spatial_dims"], p["num_points"])),
         own={"linear_coefficients": lambda p: tuple(values.SFloat(t) if not smt.is_conc(t) else t for t in SS.extract_coefficients(p["linear_difficulties"], p["num_spatial_dims"], p["num_points"])),
              "normalized_linear_coefficients": lambda p: tuple(values.SFloat(t) if not smt.is_conc(t) else t for t in SS.extract_coefficients(p["linear_difficulties"], p["num_spatial_dims"], p["num_points"]))})

register("exponax.stepper.generic._linear.DifficultyLinearStepperSimple", G.DifficultyLinearStepperSimple, linear=True, normalized=True,
         variants=tuple({"kw": {"order": n}, "term": n} for n in (0, 1, 2, 3, 4)), orders=(None,),
         params=lambda e, D, v: {"difficulty": sym.real(e, "ga")},
         sigma=lambda c, kap, p: SS.sym_generic(kap, SS.extract_coefficients((0,) * p["order"] + (p["difficulty"],), p["num_spatial_dims"], p["num_points"])),
         skip_fields=("linear_coefficients", "normalized_linear_coefficients", "linear_difficulties"))

# ====================================================================== semi-linear steppers (C02, C13)
FLAGS = tuple({"kw": {"single_channel": s, "conservative": c}, "sc": s, "cons": c} for s in (False, True) for c in (False, True))
CH = lambda p: 1 if p["single_channel"] else p["num_spatial_dims"]  # noqa: E731


def _lap(kap, order=2):
    return SS.sym_laplace(kap, order)


register(ST + "_burgers.Burgers", ex.stepper.Burgers, variants=FLAGS + ({"kw": {"single_channel": False, "conservative": True}, "contour": True},),
         params=lambda e, D, v: {"diffusivity": sym.real(e, "nu"), "convection_scale": sym.real(e, "b"), "dealiasing_fraction": _frac(e)},
         channels=CH, nonlin=nl_convection(), orders=(0, 1, 2, 3, 4, 5),
         sigma=lambda c, kap, p: SS.cscale(T(p["diffusivity"]), _lap(kap)))


def _kdv_sigma(c, kap, p):
    D = len(kap)
    one = [1] * D
    disp = smt.cneg(SS.sym_dispersion(kap, [T(p["dispersivity"])] * D, p["advect_over_diffuse"]))
    hyp = SS.sym_hyper_diffusion(kap, T(p["hyper_diffusivity"]), p["diffuse_over_diffuse"])
    return smt.cadd(smt.cadd(SS.cscale(T(p["diffusivity"]), _lap(kap)), disp), hyp)


register(ST + "_korteweg_de_vries.KortewegDeVries", ex.stepper.KortewegDeVries,
         variants=tuple({"kw": {"single_channel": s, "conservative": c, "advect_over_diffuse": a, "diffuse_over_diffuse": d}, "sc": s, "cons": c, "aod": a, "dod": d}
                        for (s, c, a, d) in ((False, False, False, False), (True, True, True, True), (False, True, True, False), (True, False, False, True))),
         params=lambda e, D, v: {"convection_scale": sym.real(e, "b"), "diffusivity": sym.real(e, "nu"), "dispersivity": sym.real(e, "xi"),
                                 "hyper_diffusivity": sym.real(e, "mu"), "dealiasing_fraction": _frac(e)},
         channels=CH, nonlin=nl_convection(), sigma=_kdv_sigma)


def _ks_sigma(c, kap, p):
    return smt.cadd(SS.cscale(smt.rneg(T(p["second_order_scale"])), _lap(kap, 2)), SS.cscale(smt.rneg(T(p["fourth_order_scale"])), _lap(kap, 4)))


register(ST + "_kuramoto_sivashinsky.KuramotoSivashinsky", ex.stepper.KuramotoSivashinsky,
         params=lambda e, D, v: {"gradient_norm_scale": sym.real(e, "b"), "second_order_scale": sym.real(e, "p1"), "fourth_order_scale": sym.real(e, "p2"), "dealiasing_fraction": _frac(e)},
         nonlin=nl_gradient_norm("gradient_norm_scale"), sigma=_ks_sigma)
register(ST + "_kuramoto_sivashinsky.KuramotoSivashinskyConservative", ex.stepper.KuramotoSivashinskyConservative, variants=FLAGS,
         params=lambda e, D, v: {"convection_scale": sym.real(e, "b"), "second_order_scale": sym.real(e, "p1"), "fourth_order_scale": sym.real(e, "p2"), "dealiasing_fraction": _frac(e)},
         channels=CH, nonlin=nl_convection(), sigma=_ks_sigma)


def _ns_sigma(c, kap, p):
    return smt.cadd(SS.cscale(T(p["diffusivity"]), _lap(kap)), CX(T(p["drag"]), 0))


NS = ST + "_navier_stokes."
register(NS + "NavierStokesVorticity", ex.stepper.NavierStokesVorticity, props=P_SEMI | {"C12"},
         params=lambda e, D, v: {"diffusivity": sym.real(e, "nu"), "vorticity_convection_scale": sym.real(e, "b"), "drag": sym.real(e, "lam"), "dealiasing_fraction": _frac(e)},
         nonlin=nl_vorticity("vorticity_convection_scale"), sigma=_ns_sigma,
         raises=[(ValueError, lambda p: p["num_spatial_dims"] != 2)])
register(NS + "KolmogorovFlowVorticity", ex.stepper.KolmogorovFlowVorticity, props=P_SEMI | {"C12"},
         params=lambda e, D, v: {"diffusivity": sym.real(e, "nu"), "convection_scale": sym.real(e, "b"), "drag": sym.real(e, "lam"),
                                 "injection_mode": sym.integer(e, "kinj", lo=1), "injection_scale": sym.real(e, "gamma"), "dealiasing_fraction": _frac(e)},
         nonlin=nl_vorticity("convection_scale", kolmogorov=True), sigma=_ns_sigma,
         raises=[(ValueError, lambda p: p["num_spatial_dims"] != 2)])
register(NS + "NavierStokesVelocity", ex.stepper.NavierStokesVelocity, props=P_SEMI | {"C10", "C12"},
         params=lambda e, D, v: {"diffusivity": sym.real(e, "nu"), "drag": sym.real(e, "lam"), "dealiasing_fraction": _frac(e)},
         channels=lambda p: 3, nonlin=nl_projected(), sigma=_ns_sigma,
         raises=[(ValueError, lambda p: p["num_spatial_dims"] != 3)])
register(NS + "KolmogorovFlowVelocity", ex.stepper.KolmogorovFlowVelocity, props=P_SEMI | {"C10", "C12"},
         params=lambda e, D, v: {"diffusivity": sym.real(e, "nu"), "drag": sym.real(e, "lam"),
                                 "injection_mode": sym.integer(e, "kinj", lo=1), "injection_scale": sym.real(e, "gamma"), "dealiasing_fraction": _frac(e)},
         channels=lambda p: 3, nonlin=nl_projected(kolmogorov=True), sigma=_ns_sigma,
         raises=[(ValueError, lambda p: p["num_spatial_dims"] != 3)],
         requires=lambda p: [("0 < 2*injection_mode < N", smt.band(smt.rgt(T(p["injection_mode"]), 0), smt.rlt(smt.rmul(2, T(p["injection_mode"])), T(p["num_points"]))))])

# reaction
RQ = "exponax.stepper.reaction."
register(RQ + "_fisher_kpp.FisherKPP", RX.FisherKPP,
         params=lambda e, D, v: {"diffusivity": sym.real(e, "nu"), "reactivity": sym.real(e, "rr"), "dealiasing_fraction": _frac(e)},
         nonlin=nl_polynomial(lambda p: [0.0, 0.0, -p["reactivity"]]),
         sigma=lambda c, kap, p: smt.cadd(SS.cscale(T(p["diffusivity"]), _lap(kap)), CX(T(p["reactivity"]), 0)))
register(RQ + "_allen_cahn.AllenCahn", RX.AllenCahn,
         params=lambda e, D, v: {"diffusivity": sym.real(e, "nu"), "first_order_coefficient": sym.real(e, "c1"), "third_order_coefficient": sym.real(e, "c3"), "dealiasing_fraction": _frac(e)},
         nonlin=nl_polynomial(lambda p: [0.0, 0.0, 0.0, p["third_order_coefficient"]]),
         sigma=lambda c, kap, p: smt.cadd(SS.cscale(T(p["diffusivity"]), _lap(kap)), CX(T(p["first_order_coefficient"]), 0)))


def _ch_sigma(c, kap, p):
    lap = _lap(kap)
    return smt.cmul(SS.cscale(T(p["diffusivity"]), lap), smt.csub(CX(T(p["first_order_coefficient"]), 0), SS.cscale(T(p["gamma"]), lap)))


register(RQ + "_cahn_hilliard.CahnHilliard", RX.CahnHilliard,
         params=lambda e, D, v: {"diffusivity": sym.real(e, "nu"), "gamma": sym.real(e, "gam"), "first_order_coefficient": sym.real(e, "c1"),
                                 "third_order_coefficient": sym.real(e, "c3"), "dealiasing_fraction": _frac(e)},
         nonlin=lambda p, D, N, dop: ObjSpec(CahnHilliardNonlinearFun, dict(SN.base_fields(D, N, p["dealiasing_fraction"]),
                                                                             scale=values.SFloat(smt.rmul(T(p["diffusivity"]), T(p["third_order_coefficient"]))),
                                                                             laplace_operator=S.laplace_operator(dop, 2))),
         sigma=_ch_sigma)


def _sh_sigma(c, kap, p):
    x = smt.cadd(CX(T(p["critical_number"]), 0), _lap(kap))
    return smt.csub(CX(T(p["reactivity"]), 0), smt.cmul(x, x))


register(RQ + "_swift_hohenberg.SwiftHohenberg", RX.SwiftHohenberg,
         params=lambda e, D, v: {"reactivity": sym.real(e, "rr"), "critical_number": sym.real(e, "kc"), "polynomial_coefficients": _coefs(e, 4, "g"), "dealiasing_fraction": _frac(e)},
         nonlin=nl_polynomial(lambda p: p["polynomial_coefficients"]), sigma=_sh_sigma)
register(RQ + "_gray_scott.GrayScott", RX.GrayScott, channels=lambda p: 2, lin_channels=lambda p: 2,
         params=lambda e, D, v: {"diffusivity_1": sym.real(e, "nu1"), "diffusivity_2": sym.real(e, "nu2"), "feed_rate": sym.real(e, "f"), "kill_rate": sym.real(e, "k"), "dealiasing_fraction": _frac(e)},
         nonlin=lambda p, D, N, dop: ObjSpec(GrayScottNonlinearFun, dict(SN.base_fields(D, N, p["dealiasing_fraction"]), feed_rate=p["feed_rate"], kill_rate=p["kill_rate"])),
         sigma=lambda c, kap, p: SS.cscale(values.select_by_index(c, [T(p["diffusivity_1"]), T(p["diffusivity_2"])], "real") if not isinstance(c, int) else T(p[f"diffusivity_{c + 1}"]), _lap(kap)))
register(RQ + "_belousov_zhabotinsky.BelousovZhabotinsky", BelousovZhabotinsky, channels=lambda p: 3, lin_channels=lambda p: 3,
         params=lambda e, D, v: {"diffusivities": _coefs(e, 3, "nu"), "dealiasing_fraction": _frac(e)},
         nonlin=lambda p, D, N, dop: ObjSpec(BelousovZhabotinskyNonlinearFun, SN.base_fields(D, N, p["dealiasing_fraction"])),
         sigma=lambda c, kap, p: SS.cscale(values.select_by_index(c, [T(x) for x in p["diffusivities"]], "real") if not isinstance(c, int) else T(p["diffusivities"][c]), _lap(kap)))

# generic families
GQ = "exponax.stepper.generic."
NC = (1, 3, 5)


def _norm(p, key):
    return p[key]


def _sf(t):
    return t if smt.is_conc(t) else values.SFloat(t)


def _gen_family(modname, base, general, normalized, difficulty, nl_kind):
    """general / normalized / difficulty triple of one generic family"""
    flags = FLAGS if nl_kind == "convection" else ({},)
    ch = CH if nl_kind == "convection" else (lambda p: 1)

    def nl_params(e, prefix):
        if nl_kind == "convection":
            return {prefix + "convection_" + ("scale" if prefix != "diff:" else "difficulty"): sym.real(e, "b")}
        return {}
    # ---- general
    gen_nl = {"convection": ("convection_scale", nl_convection("convection_scale")),
              "gradient_norm": ("gradient_norm_scale", nl_gradient_norm("gradient_norm_scale")),
              "polynomial": ("polynomial_coefficients", nl_polynomial(lambda p: p["polynomial_coefficients"])),
              "nonlinear": ("nonlinear_coefficients", nl_general("nonlinear_coefficients"))}[nl_kind]

    def gen_extra(e):
        k = gen_nl[0]
        if nl_kind in ("convection", "gradient_norm"):
            return {k: sym.real(e, "b")}
        return {k: _coefs(e, 3, "b")}
    raises = [(ValueError, lambda p: len(p["nonlinear_coefficients"]) != 3)] if nl_kind == "nonlinear" else []
    variants = tuple(dict(v, ncoef=n) for v in flags for n in NC)
    if nl_kind == "nonlinear":
        variants = variants + ({"ncoef": 3, "bad_nl": 2},)
    register(GQ + f"{modname}.{general.__name__}", general, variants=variants, channels=ch, raises=raises,
             params=lambda e, D, v: dict({"linear_coefficients": _coefs(e, v["ncoef"]), "dealiasing_fraction": _frac(e)},
                                         **({gen_nl[0]: _coefs(e, v["bad_nl"], "b")} if v.get("bad_nl") else gen_extra(e))),
             nonlin=gen_nl[1], sigma=lambda c, kap, p: SS.sym_generic(kap, p["linear_coefficients"]))
    # ---- normalized
    nk = {"convection": "normalized_convection_scale", "gradient_norm": "normalized_gradient_norm_scale",
          "polynomial": "normalized_polynomial_coefficients", "nonlinear": "normalized_nonlinear_coefficients"}[nl_kind]

    def norm_nl(p, D, N, dop):
        q = dict(p)
        q[gen_nl[0]] = p[nk]
        return gen_nl[1](q, D, N, dop)
    register(GQ + f"{modname}.{normalized.__name__}", normalized, normalized=True, variants=tuple(dict(v, ncoef=n) for v in flags for n in NC[:2]), channels=ch,
             orders=(0, 2, 4),
             params=lambda e, D, v: {"normalized_linear_coefficients": _coefs(e, v["ncoef"], "al"), "dealiasing_fraction": _frac(e),
                                     nk: (sym.real(e, "be") if nl_kind in ("convection", "gradient_norm") else _coefs(e, 3, "be"))},
             nonlin=norm_nl, sigma=lambda c, kap, p: SS.sym_generic(kap, p["normalized_linear_coefficients"]),
             own={"linear_coefficients": lambda p: p["normalized_linear_coefficients"], gen_nl[0]: lambda p: p[nk]})
    # ---- difficulty
    dk = {"convection": "convection_difficulty", "gradient_norm": "gradient_norm_difficulty",
          "polynomial": "polynomial_difficulties", "nonlinear": "nonlinear_difficulties"}[nl_kind]

    def diff_scale(p):
        D, N = p["num_spatial_dims"], p["num_points"]
        if nl_kind == "convection":
            return _sf(SS.extract_convection(p[dk], D, N, p["maximum_absolute"]))
        if nl_kind == "gradient_norm":
            return _sf(SS.extract_gradient_norm(p[dk], D, N, p["maximum_absolute"]))
        if nl_kind == "polynomial":
            return p[dk]
        d = p[dk]
        return (d[0], _sf(SS.extract_convection(d[1], D, N, p["maximum_absolute"])), _sf(SS.extract_gradient_norm(d[2], D, N, p["maximum_absolute"])))

    def diff_nl(p, D, N, dop):
        q = dict(p)
        q[gen_nl[0]] = diff_scale(p)
        return gen_nl[1](q, D, N, dop)

    def diff_params(e, D, v):
        kw = {"linear_difficulties": _coefs(e, v["ncoef"], "ga"), "dealiasing_fraction": _frac(e),
              dk: (sym.real(e, "de") if nl_kind in ("convection", "gradient_norm") else _coefs(e, 3, "de"))}
        if nl_kind != "polynomial":
            kw["maximum_absolute"] = sym.pos_real(e, "Mabs")
        return kw
    register(GQ + f"{modname}.{difficulty.__name__}", difficulty, normalized=True, variants=tuple(dict(v, ncoef=n) for v in flags for n in NC[:2]), channels=ch,
             orders=(0, 2, 4), params=diff_params, nonlin=diff_nl,
             sigma=lambda c, kap, p: SS.sym_generic(kap, SS.extract_coefficients(p["linear_difficulties"], p["num_spatial_dims"], p["num_points"])),
             skip_fields=("linear_coefficients", "normalized_linear_coefficients", gen_nl[0], nk))


_gen_family("_convection", None, G.GeneralConvectionStepper, G.NormalizedConvectionStepper, G.DifficultyConvectionStepper, "convection")
_gen_family("_gradient_norm", None, G.GeneralGradientNormStepper, G.NormalizedGradientNormStepper, G.DifficultyGradientNormStepper, "gradient_norm")
_gen_family("_polynomial", None, G.GeneralPolynomialStepper, G.NormalizedPolynomialStepper, G.DifficultyPolynomialStepper, "polynomial")
_gen_family("_nonlinear", None, G.GeneralNonlinearStepper, G.NormalizedNonlinearStepper, G.DifficultyNonlinearStepper, "nonlinear")


def _gvc_nl(p, D, N, dop):
    # documented: no injection term when injection_scale == 0 (a plain VorticityConvection2d), Kolmogorov forcing otherwise
    if bool(values.mk_bool(smt.req(T(p["injection_scale"]), 0))):
        return nl_vorticity("vorticity_convection_scale")(p, D, N, dop)
    return nl_vorticity("vorticity_convection_scale", kolmogorov=True)(p, D, N, dop)


register(GQ + "_vorticity_convection.GeneralVorticityConvectionStepper", G.GeneralVorticityConvectionStepper, props=P_SEMI | {"C12"},
         variants=tuple({"ncoef": n, "inj": inj} for n in (1, 3) for inj in ("symbolic", "zero")),
         params=lambda e, D, v: {"vorticity_convection_scale": sym.real(e, "b"), "linear_coefficients": _coefs(e, v["ncoef"]),
                                 "injection_mode": sym.integer(e, "kinj", lo=1), "injection_scale": (sym.real(e, "gamma") if v["inj"] == "symbolic" else 0.0),
                                 "dealiasing_fraction": _frac(e)},
         nonlin=_gvc_nl, sigma=lambda c, kap, p: SS.sym_generic(kap, p["linear_coefficients"]),
         raises=[(ValueError, lambda p: p["num_spatial_dims"] != 2)])
