"""Contracts for exponax._interpolation (C15)."""
from __future__ import annotations

from exponax._interpolation import FourierInterpolator
from specs import interp as SI
from specs.base import T, wshape
from symjnp import smt, sym
from symjnp.contracts import Case, Contract, ObjSpec, make_instance

DIMS = (1, 2, 3)
Q = "exponax._interpolation."


def _state(e, D):
    N = sym.integer(e, "N", lo=1)
    C = sym.integer(e, "C", lo=1)
    return sym.array(e, "u", (C,) + (N,) * D), N, C


Contract(Q + "FourierInterpolator", props={"C15"},
         cases=[Case(f"D={D},indexing={ix}", lambda e, D=D, ix=ix: ((_state(e, D)[0],), {"domain_extent": sym.pos_real(e, "L"), "indexing": ix}))
                for D in DIMS for ix in ("ij", "xy")],
         spec=lambda state, domain_extent=1.0, indexing="ij": ObjSpec(FourierInterpolator, SI.interpolator_fields(state, domain_extent, indexing)))


def _interp_self(e, D):
    N = sym.integer(e, "N", lo=1)
    C = sym.integer(e, "C", lo=1)
    obj = make_instance(FourierInterpolator, {
        "num_spatial_dims": D, "domain_extent": sym.pos_real(e, "L"), "num_points": N,
        "state_hat_scaled": sym.array(e, "sh", (C,) + wshape(D, N), "complex"),
        "wavenumbers": sym.array(e, "wn", (D,) + wshape(D, N))})
    return obj, sym.vector(e, "x", D)


Contract(Q + "FourierInterpolator.__call__", props={"C15"},
         cases=[Case(f"D={D}", lambda e, D=D: (_interp_self(e, D), {})) for D in DIMS],
         spec=lambda self, x: SI.interpolate(self, x))


def _map_cases():
    out = []
    for D in DIMS:
        for oz in (True, False):
            def build(e, D=D, oz=oz):
                # grids with a single point per axis are degenerate (slice(-0, None) is the whole axis): N, N_new >= 2
                N = sym.integer(e, "N", lo=2)
                C = sym.integer(e, "C", lo=1)
                u = sym.array(e, "u", (C,) + (N,) * D)
                return (u, sym.integer(e, "Nnew", lo=2)), {"oddball_zero": oz}
            out.append(Case(f"D={D},oddball_zero={oz}", build))
    return out


Contract(Q + "map_between_resolutions", props={"C15"}, cases=_map_cases(),
         spec=lambda state, new_num_points, oddball_zero=True: SI.resample(state, new_num_points, oddball_zero))
