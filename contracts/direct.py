"""DIRECT property checks: the property's own statement as a post-condition on the result of the real code, with NO
callee replaced by its contract (the whole call tree is executed under the jax.numpy shim).

The contracts in the other files say "the result equals the documented formula"; several properties are weaker than
that (no amplification, rejections, ...): a change can alter the documented formula and still satisfy them.  For such a
property the verdict of its check is taken from the direct checks here, which do not mention the documented formula at
all -- so the check alarms exactly when the property itself fails on the code."""
from __future__ import annotations

import z3

import exponax as ex
from exponax.stepper import generic as G
from specs.base import T
from symjnp import smt, sym, values
from symjnp.contracts import Case, Contract, fresh_index
from symjnp.smt import CX

DIMS = (1, 2, 3)


def _abs2(el):
    el = smt.C(el)
    return smt.radd(smt.rmul(el.re, el.re), smt.rmul(el.im, el.im))


def _forall_modes(e, arr, name, claim, kind="ensures"):
    """claim(element term, index tuple) -> B-value, proved for a fresh symbolic index of `arr`"""
    idx, hyps = fresh_index(e, arr.shape)
    e.hyps.extend(hyps)
    try:
        e.prove(name, claim(arr.at_(idx), idx), kind=kind)
    finally:
        del e.hyps[len(e.hyps) - len(hyps):]


# ============================================================================================ C11
def _gain_post(mode):
    """post-condition on a constructed linear stepper: per-mode gain |exp(dt sigma)|^2 of the stored propagator"""
    def post(e, res, *a, **k):
        E = res._integrator._exp_term
        if mode == "le":
            _forall_modes(e, E, "C11 (direct): |propagator|^2 <= 1 for every mode (the stepper never amplifies)", lambda el, i: smt.rle(_abs2(el), 1))
        else:
            _forall_modes(e, E, "C11 (direct): |propagator|^2 == 1 for every mode (the norm is preserved)", lambda el, i: smt.req(_abs2(el), 1))
    return post


def _native_gain(mode):
    """native form of _gain_post / _strict_post (real jax arrays, float64)"""
    def f(stepper, *a, **k):
        import numpy as np
        g = np.abs(np.asarray(stepper._integrator._exp_term)) ** 2
        if mode == "le":
            bad = np.argwhere(g > 1 + 1e-9)
        elif mode == "eq":
            bad = np.argwhere(np.abs(g - 1) > 1e-9)
        else:   # strict: every mode but the mean
            g = g.copy()
            g[(0,) * g.ndim] = 0.0
            bad = np.argwhere(g >= 1 - 1e-15)
        return [f"|propagator|^2 = {g[tuple(b)]!r} at mode {tuple(int(v) for v in b)}" for b in bad[:3]]
    return f


def _lin_case(cls, D, params, label):
    def build(e):
        N = sym.integer(e, "N", lo=1)
        dt = sym.real(e, "dt", lo=0, lo_strict=True)       # the statement is for dt > 0
        return (D, sym.pos_real(e, "L"), N, dt), params(e, D)
    return Case(f"D={D},{label}", build)


def _nonneg(e, name):
    return sym.real(e, name, lo=0)


def _register_c11():
    P = {"C11"}
    ST = ex.stepper
    q = lambda cls: f"{cls.__module__}.{cls.__qualname__}"  # noqa: E731
    table = [
        (ST.Advection, "eq", [("any real velocity", lambda e, D: {"velocity": sym.real(e, "c")})]),
        (ST.Diffusion, "le", [("diffusivity >= 0", lambda e, D: {"diffusivity": _nonneg(e, "nu")})]),
        (ST.AdvectionDiffusion, "le", [("any velocity, diffusivity >= 0", lambda e, D: {"velocity": sym.real(e, "c"), "diffusivity": _nonneg(e, "nu")})]),
        (ST.Dispersion, "eq", [(f"any dispersivity, advect_on_diffusion={a}", lambda e, D, a=a: {"dispersivity": sym.real(e, "xi"), "advect_on_diffusion": a}) for a in (False, True)]),
        (ST.HyperDiffusion, "le", [(f"hyper_diffusivity >= 0, diffuse_on_diffuse={a}", lambda e, D, a=a: {"hyper_diffusivity": _nonneg(e, "mu"), "diffuse_on_diffuse": a}) for a in (False, True)]),
    ]
    for cls, mode, variants in table:
        Contract(q(cls), key=q(cls) + "#C11", props=P, inline_all=True, spec=None, post=_gain_post(mode), native_post=_native_gain(mode), axiom_opts={"exp_pairs": False},
                 cases=[_lin_case(cls, D, params, label) for D in DIMS for (label, params) in variants])
    # per-axis and full-matrix diffusivities: the quadratic form kappa^T A kappa must be >= 0 (positive semi-definite A)
    Contract(q(ST.Diffusion), key=q(ST.Diffusion) + "#C11:anisotropic", props=P, inline_all=True, spec=None, post=_gain_post("le"), native_post=_native_gain("le"),
             cases=[_lin_case(ST.Diffusion, D, lambda e, D: {"diffusivity": _vec_nonneg(e, D)}, "per-axis diffusivities >= 0") for D in (2, 3)]
             + [_lin_case(ST.Diffusion, 2, lambda e, D: {"diffusivity": _psd2(e)}, "2x2 positive semi-definite diffusivity matrix")])
    # strictness: positive (hyper-)diffusivity shrinks every non-constant mode
    Contract(q(ST.Diffusion), key=q(ST.Diffusion) + "#C11:strict", props=P, inline_all=True, spec=None, post=_strict_post, native_post=_native_gain("strict"),
             cases=[_lin_case(ST.Diffusion, D, lambda e, D: {"diffusivity": sym.pos_real(e, "nu")}, "diffusivity > 0") for D in DIMS])
    Contract(q(ST.HyperDiffusion), key=q(ST.HyperDiffusion) + "#C11:strict", props=P, inline_all=True, spec=None, post=_strict_post, native_post=_native_gain("strict"),
             cases=[_lin_case(ST.HyperDiffusion, D, lambda e, D, a=a: {"hyper_diffusivity": sym.pos_real(e, "mu"), "diffuse_on_diffuse": a}, f"hyper_diffusivity > 0, diffuse_on_diffuse={a}")
                    for D in DIMS for a in (False, True)])
    # generic / normalized / difficulty interfaces: sign conditions that make Re(symbol) <= 0 term by term
    # (orders 0, 2, 4: a_0 <= 0, a_2 >= 0, a_4 <= 0; odd orders are purely imaginary)

    def signed(e, n, name):
        return tuple((sym.real(e, f"{name}{j}", hi=0) if j % 4 == 0 else _nonneg(e, f"{name}{j}")) if j % 2 == 0 else sym.real(e, f"{name}{j}") for j in range(n))
    for cls, key, mk in ((G.GeneralLinearStepper, "linear_coefficients", None), (G.NormalizedLinearStepper, "normalized_linear_coefficients", "norm"),
                         (G.DifficultyLinearStepper, "linear_difficulties", "diff")):
        cases = []
        for D in DIMS:
            for n in (1, 2, 3, 5):
                def build(e, D=D, n=n, key=key, mk=mk):
                    N = sym.integer(e, "N", lo=1)
                    if mk is None:
                        return (D, sym.pos_real(e, "L"), N, sym.real(e, "dt", lo=0, lo_strict=True)), {key: signed(e, n, "a")}
                    return (), {"num_spatial_dims": D, "num_points": N, key: signed(e, n, "a")}
                cases.append(Case(f"D={D},{n} coefficients with dissipative signs", build))
        Contract(q(cls), key=q(cls) + "#C11", props=P, inline_all=True, spec=None, post=_gain_post("le"), native_post=_native_gain("le"), cases=cases)
    # the propagation itself: every order-0 step multiplies each mode by the stored propagator (|out| = |E| |u| per mode)
    from exponax.etdrk import ETDRK0
    from symjnp.contracts import make_instance

    def sf_case(D, E1):
        def build(e):
            N = sym.integer(e, "N", lo=1)
            C = sym.integer(e, "C", lo=1)
            shape = (N,) * (D - 1) + (N // 2 + 1,)
            Ech = 1 if E1 else C
            obj = make_instance(ETDRK0, {"dt": sym.real(e, "dt"), "_exp_term": sym.array(e, "E", (Ech,) + shape, "complex")})
            return (obj, sym.array(e, "uh", (C,) + shape, "complex")), {}
        return Case(f"D={D},propagator channels={'1' if E1 else 'C'}", build)

    def sf_post(e, res, self, u_hat):
        idx, hyps = fresh_index(e, res.shape)
        e.hyps.extend(hyps)
        try:
            Eidx = ((0,) if self._exp_term.shape[0] == 1 else (idx[0],)) + tuple(idx[1:])
            e.prove("C11 (direct): |step_fourier(u)[mode]|^2 == |propagator[mode]|^2 * |u[mode]|^2",
                    smt.req(_abs2(res.at_(idx)), smt.rmul(_abs2(self._exp_term.at_(Eidx)), _abs2(u_hat.at_(idx)))), kind="ensures")
        finally:
            del e.hyps[len(e.hyps) - len(hyps):]
    Contract("exponax.etdrk._etdrk_0.ETDRK0.step_fourier", key="exponax.etdrk._etdrk_0.ETDRK0.step_fourier#C11", props=P, inline_all=True, spec=None,
             post=sf_post, cases=[sf_case(D, E1) for D in DIMS for E1 in (True, False)])


def _register_c11_wave():
    """the wave stepper conserves, per Fourier mode, the wave energy |v|^2 + (c |kappa|)^2 |h|^2 (kinetic plus c^2 times
    gradient energy); at the mean mode that is |v|^2 and the documented drift of the mean height does not enter it.
    Whole call tree: the real constructor, then the real step_fourier of the constructed object."""
    Wave = ex.stepper.Wave
    q = f"{Wave.__module__}.{Wave.__qualname__}"

    def case(D):
        def build(e):
            N = sym.integer(e, "N", lo=1)
            return (D, sym.pos_real(e, "L"), N, sym.real(e, "dt")), {"speed_of_sound": sym.real0d(e, "c", nonzero=True)}
        return Case(f"D={D}", build)

    def post(e, stepper, D, L, N, dt, speed_of_sound=1.0):
        uh = sym.array(e, "uh", (2,) + (N,) * (D - 1) + (N // 2 + 1,), "complex")
        from symjnp.contracts import shimmed
        with shimmed():
            out = stepper.step_fourier(uh)
        wn = stepper.wavenumber_norm
        c = smt.R(stepper.speed_of_sound.at_(())) if isinstance(stepper.speed_of_sound, values.SArr) else T(stepper.speed_of_sound)
        idx, hyps = fresh_index(e, (1,) + tuple(uh.shape[1:]))
        e.hyps.extend(hyps)
        try:
            s = tuple(idx[1:])
            om = smt.rmul(c, smt.R(wn.at_((0,) + s)))
            en = lambda a: smt.radd(_abs2(a.at_((1,) + s)), smt.rmul(smt.rmul(om, om), _abs2(a.at_((0,) + s))))  # noqa: E731
            e.prove("C11 (direct): wave energy |v|^2 + (c|kappa|)^2 |h|^2 of every mode is unchanged by a step", smt.req(en(out), en(uh)), kind="ensures")
        finally:
            del e.hyps[len(e.hyps) - len(hyps):]
    Contract(q, key=q + "#C11:energy", props={"C11"}, inline_all=True, spec=None, post=post, axiom_opts={"trig_pairs": True},
             cases=[case(D) for D in DIMS])


def _register_c11_wiring():
    """BaseStepper wiring, on a real constructed stepper (Diffusion, AdvectionDiffusion; whole call tree): step_fourier
    does not amplify any mode, and step / __call__ are irfftn o step_fourier o rfftn of the SAME object (two paths through
    the code compared with each other -- no documented formula involved).  With Parseval for rfftn/irfftn (A5, assumed)
    that is the statement about the L2 norm in physical space."""
    from symjnp.contracts import compare, shimmed
    ST = ex.stepper

    def post(e, stepper, D, L, N, dt, **kw):
        C = stepper.num_channels
        uh = sym.array(e, "uh", (C,) + (N,) * (D - 1) + (N // 2 + 1,), "complex")
        u = sym.array(e, "u", (C,) + (N,) * D)
        with shimmed():
            out_hat = stepper.step_fourier(uh)
            idx, hyps = fresh_index(e, uh.shape)
            e.hyps.extend(hyps)
            try:
                e.prove("C11 (direct): |step_fourier(u)[mode]|^2 <= |u[mode]|^2 for every mode", smt.rle(_abs2(out_hat.at_(idx)), _abs2(uh.at_(idx))), kind="ensures")
            finally:
                del e.hyps[len(e.hyps) - len(hyps):]
            via_fourier = ex.ifft(stepper.step_fourier(ex.fft(u, num_spatial_dims=D)), num_spatial_dims=D, num_points=N)
            compare(e, "C11 (direct): step(u) is irfftn(step_fourier(rfftn(u)))", stepper.step(u), via_fourier)
            compare(e, "C11 (direct): __call__(u) is step(u)", stepper(u), via_fourier)
    for cls, params, label in ((ST.Diffusion, lambda e, D: {"diffusivity": _nonneg(e, "nu")}, "diffusivity >= 0"),
                               (ST.AdvectionDiffusion, lambda e, D: {"velocity": sym.real(e, "c"), "diffusivity": _nonneg(e, "nu")}, "any velocity, diffusivity >= 0")):
        q = f"{cls.__module__}.{cls.__qualname__}"
        Contract(q, key=q + "#C11:wiring", props={"C11"}, inline_all=True, spec=None, post=post,
                 cases=[_lin_case(cls, D, params, label) for D in DIMS])


def _vec_nonneg(e, D):
    comps = [smt.R(_nonneg(e, f"nu{j}")) for j in range(D)]
    return values.SArr((D,), lambda i: comps[int(i[0])] if isinstance(i[0], int) else values.select_by_index(i[0], comps, "real"), "real")


def _psd2(e):
    a, b, d = sym.real(e, "A00", lo=0), sym.real(e, "A01"), sym.real(e, "A11", lo=0)
    e.assume(smt.z(smt.rge(smt.rsub(smt.rmul(smt.R(a), smt.R(d)), smt.rmul(smt.R(b), smt.R(b))), 0)))   # determinant >= 0
    m = [[smt.R(a), smt.R(b)], [smt.R(b), smt.R(d)]]
    return values.SArr((2, 2), lambda i: m[int(i[0])][int(i[1])], "real")


def _strict_post(e, res, *a, **k):
    E = res._integrator._exp_term
    idx, hyps = fresh_index(e, E.shape)
    e.hyps.extend(hyps)
    try:
        off_mean = False
        for j in idx[1:]:
            off_mean = smt.bor(off_mean, smt.rne(j, 0))
        e.prove("C11 (direct): |propagator|^2 < 1 for every mode but the mean (positive diffusivity shrinks every non-constant mode)",
                smt.bimp(off_mean, smt.rlt(_abs2(E.at_(idx)), 1)) if hasattr(smt, "bimp") else smt.bor(smt.bnot(off_mean), smt.rlt(_abs2(E.at_(idx)), 1)), kind="ensures")
    finally:
        del e.hyps[len(e.hyps) - len(hyps):]


_register_c11()
_register_c11_wave()
_register_c11_wiring()


# ============================================================================================ C10
def _div(dop, v, idx_s):
    """spectral divergence  sum_d dop[d, mode] * v[d, mode]  at one mode (complex)"""
    tot = CX(0, 0)
    for d in range(dop.shape[0]):
        tot = smt.cadd(tot, smt.cmul(smt.C(dop.at_((d,) + idx_s)), smt.C(v.at_((d,) + idx_s))))
    return tot


def _czero(c):
    return smt.band(smt.req(c.re, 0), smt.req(c.im, 0))


def _register_c10():
    """the statement of C10, clause by clause, on the real code (whole call tree; the derivative operator is the one the
    real build_derivative_operator returns): zero spectral divergence of the projections, idempotence, identity on
    divergence-free fields, agreement of the two routines, divergence-free rotational convection term, and preservation
    of divergence-freeness by every ETDRK order with per-mode (channel-independent) coefficients"""
    from exponax.etdrk import ETDRK1, ETDRK2, ETDRK3, ETDRK4
    from exponax.nonlin_fun import Leray, ProjectedConvection3d
    from symjnp.contracts import compare, make_instance, shimmed
    P = {"C10"}

    def wsh(D, N):
        return (N,) * (D - 1) + (N // 2 + 1,)

    def mode_index(e, D, N):
        return fresh_index(e, (1,) + wsh(D, N))

    # ---- Leray.__call__: div = 0, idempotent, identity on divergence-free input
    def leray_build(D):
        def build(e):
            N = sym.integer(e, "N", lo=1)
            return (D, sym.pos_real(e, "L"), N), {}
        return Case(f"D={D}", build)

    def leray_invoke(D, L, N):
        dop = ex.spectral.build_derivative_operator(D, L, N)
        return Leray(D, N, derivative_operator=dop), dop

    def leray_post(e, res, D, L, N):
        proj, dop = res
        uh = sym.array(e, "uh", (D,) + wsh(D, N), "complex")
        with shimmed():
            out = proj(uh)
            out2 = proj(out)
        idx, hyps = mode_index(e, D, N)
        s = tuple(idx[1:])
        e.hyps.extend(hyps)
        try:
            e.prove("C10 (direct): the Leray projection has zero spectral divergence at every mode", _czero(_div(dop, out, s)), kind="ensures")
            for d in range(D):
                e.prove(f"C10 (direct): the Leray projection is idempotent (channel {d})", smt.ceq(smt.C(out2.at_((d,) + s)), smt.C(out.at_((d,) + s))), kind="ensures")
            dv = _div(dop, uh, s)
            e.hyps.extend([smt.z(smt.req(dv.re, 0)), smt.z(smt.req(dv.im, 0))])
            try:
                for d in range(D):
                    e.prove(f"C10 (direct): a mode with zero divergence is left unchanged (channel {d})", smt.ceq(smt.C(out.at_((d,) + s)), smt.C(uh.at_((d,) + s))), kind="ensures")
            finally:
                del e.hyps[-2:]
        finally:
            del e.hyps[len(e.hyps) - len(hyps):]
    Contract("exponax.nonlin_fun._leray.Leray.__call__", key="exponax.nonlin_fun._leray.Leray.__call__#C10", props=P, inline_all=True, spec=None,
             invoke=leray_invoke, post=leray_post, native_post=_native_leray, cases=[leray_build(D) for D in DIMS])

    # ---- make_incompressible: the physical-space routine is irfftn o (Leray projection of any extent) o rfftn
    def mi_build(D):
        def build(e):
            N = sym.integer(e, "N", lo=1)
            return (sym.array(e, "u", (D,) + (N,) * D),), {}
        return Case(f"D={D}", build)

    def mi_post(e, res, field, indexing="ij"):
        D, N = field.shape[0], field.shape[1]
        L = sym.pos_real(e, "L")
        with shimmed():
            dop = ex.spectral.build_derivative_operator(D, L, N)
            via = ex.ifft(Leray(D, N, derivative_operator=dop)(ex.fft(field, num_spatial_dims=D)), num_spatial_dims=D, num_points=N)
        compare(e, "C10 (direct): make_incompressible(u) is irfftn(Leray_L(rfftn(u))) for every domain extent L (the two routines agree)", res, via)
    Contract("exponax._spectral.make_incompressible", key="exponax._spectral.make_incompressible#C10", props=P, inline_all=True, spec=None,
             post=mi_post, native_post=_native_make_incompressible, cases=[mi_build(D) for D in DIMS])

    # ---- the 3D rotational convection term is divergence-free for every input
    def pc_build(frac):
        def build(e):
            N = sym.integer(e, "N", lo=1)
            kw = {} if frac == "default" else {"dealiasing_fraction": sym.real(e, "frac", lo=0, lo_strict=True, hi=1)}
            return (sym.pos_real(e, "L"), N), kw
        return Case(f"dealiasing fraction {frac}", build)

    def pc_invoke(L, N, **kw):
        dop = ex.spectral.build_derivative_operator(3, L, N)
        return ProjectedConvection3d(3, N, derivative_operator=dop, **kw), dop

    def pc_post(e, res, L, N, **kw):
        nl, dop = res
        uh = sym.array(e, "uh", (3,) + wsh(3, N), "complex")
        with shimmed():
            out = nl(uh)
        idx, hyps = mode_index(e, 3, N)
        e.hyps.extend(hyps)
        try:
            e.prove("C10 (direct): the rotational convection term has zero spectral divergence at every mode, for every input",
                    _czero(_div(dop, out, tuple(idx[1:]))), kind="ensures")
        finally:
            del e.hyps[len(e.hyps) - len(hyps):]
    Contract("exponax.nonlin_fun._projected_convection.ProjectedConvection3d.__call__", key="exponax.nonlin_fun._projected_convection.ProjectedConvection3d.__call__#C10",
             props=P, inline_all=True, spec=None, invoke=pc_invoke, post=pc_post, native_post=_native_div_free_term, cases=[pc_build(f) for f in ("default", "symbolic")])

    # ---- every ETDRK order keeps a divergence-free mode divergence-free: per-mode coefficients (channel extent 1, any
    #      values) and a nonlinear term whose result is divergence-free (the real ProjectedConvection3d)
    def et_build(order):
        def build(e):
            N = sym.integer(e, "N", lo=1)
            return (order, sym.pos_real(e, "L"), N), {}
        return Case(f"order={order}", build)

    def et_invoke(order, L, N):
        dop = ex.spectral.build_derivative_operator(3, L, N)
        # a nonlinear term with zero spectral divergence for every input -- what the clauses above prove the projected
        # convection term to be.  Here: the cross product of the derivative operator with an ARBITRARY field X(v)
        # (dop . (dop x X) = 0 identically), so the obligation below is about the stage formulas alone.
        inner = sym.AbstractOp("X")

        def nl(v):
            x = inner(v)
            return values.stack([dop[1] * x[2] - dop[2] * x[1], dop[2] * x[0] - dop[0] * x[2], dop[0] * x[1] - dop[1] * x[0]], 0)
        e = _cur()
        shape = (1,) + wsh(3, N)
        f = {"dt": sym.real(e, "dt"), "_exp_term": sym.array(e, "E", shape, "complex"), "_nonlinear_fun": nl}
        ncoef = {1: 1, 2: 2, 3: 5, 4: 6}[order]
        for j in range(1, ncoef + 1):
            f[f"_coef_{j}"] = sym.array(e, f"c{j}", shape, "complex")
        if order >= 3:
            f["_half_exp_term"] = sym.array(e, "Eh", shape, "complex")
        integ = make_instance({1: ETDRK1, 2: ETDRK2, 3: ETDRK3, 4: ETDRK4}[order], f)
        uh = sym.array(e, "uh", (3,) + wsh(3, N), "complex")
        return integ.step_fourier(uh), uh, dop, f["_exp_term"]

    def et_post(e, res, order, L, N):
        out, uh, dop, E = res
        idx, hyps = mode_index(e, 3, N)
        s = tuple(idx[1:])
        e.hyps.extend(hyps)
        try:
            # stated as an identity (no hypothesis): div(step(u)) = exp_term * div(u) at every mode -- all nonlinear
            # contributions are divergence-free; hence a mode with zero divergence stays one, for any number of steps
            e.prove(f"C10 (direct): ETDRK{order}: divergence of the stepped state == propagator * divergence of the state, at every mode "
                    f"(any per-mode coefficients; so zero divergence is preserved)",
                    smt.ceq(_div(dop, out, s), smt.cmul(smt.C(E.at_((0,) + s)), _div(dop, uh, s))), kind="ensures")
        finally:
            del e.hyps[len(e.hyps) - len(hyps):]
    Contract("exponax.etdrk._base_etdrk.BaseETDRK.step_fourier", key="exponax.etdrk.ETDRK.step_fourier#C10", props=P, inline_all=True, spec=None,
             invoke=et_invoke, post=et_post, cases=[et_build(o) for o in (1, 2, 3, 4)])

    # ---- the 3D velocity steppers use exactly that: a per-mode (one-channel) linear operator and the projected convection
    def ns_build(cls, extra):
        def build(e):
            N = sym.integer(e, "N", lo=1)
            return (cls, sym.pos_real(e, "L"), N, sym.real(e, "dt")), dict(extra(e), order=0)
        return Case(f"{cls.__name__}", build)

    def ns_invoke(cls, L, N, dt, **kw):
        return cls(3, L, N, dt, **kw)

    def ns_post(e, stepper, cls, L, N, dt, **kw):
        with shimmed():
            dop = ex.spectral.build_derivative_operator(3, L, N)
            lin = stepper._build_linear_operator(dop)
            nl = stepper._build_nonlinear_fun(dop)
        e.prove("C10 (direct): the linear operator of the 3D velocity stepper is per-mode (channel extent 1, so every velocity component is damped alike)",
                smt.req(values.dim_term(lin.shape[0]), 1), kind="ensures")
        e.prove("C10 (direct): the nonlinear term of the 3D velocity stepper is the projected rotational convection", isinstance(nl, ProjectedConvection3d), kind="ensures")
        uh = sym.array(e, "uh", (3,) + wsh(3, N), "complex")
        forced = hasattr(nl, "injection")
        with shimmed():
            out = nl(uh)
            base = ProjectedConvection3d.__call__(nl, uh) if forced else out
        idx, hyps = mode_index(e, 3, N)
        s = tuple(idx[1:])
        e.hyps.extend(hyps)
        try:
            # (stated in three easy pieces for the forced stepper: unforced part, forcing, and their sum being the term)
            e.prove("C10 (direct): the stepper's convection term has zero spectral divergence at every mode", _czero(_div(dop, base, s)), kind="ensures")
            if forced:
                e.prove("C10 (direct): the Kolmogorov forcing has zero spectral divergence at every mode", _czero(_div(dop, nl.injection, s)), kind="ensures")
                for d in range(3):
                    e.prove(f"C10 (direct): the forced stepper's nonlinear term is convection term + forcing (channel {d})",
                            smt.ceq(smt.C(out.at_((d,) + s)), smt.cadd(smt.C(base.at_((d,) + s)), smt.C(nl.injection.at_((d,) + s)))), kind="ensures")
        finally:
            del e.hyps[len(e.hyps) - len(hyps):]
    ST = ex.stepper
    Contract("exponax.stepper._navier_stokes.NavierStokesVelocity", key="exponax.stepper._navier_stokes.velocity_steppers#C10", props=P, inline_all=True, spec=None,
             invoke=ns_invoke, post=ns_post,
             cases=[ns_build(ST.NavierStokesVelocity, lambda e: {"diffusivity": sym.real(e, "nu"), "drag": sym.real(e, "lam")}),
                    ns_build(ST.KolmogorovFlowVelocity, lambda e: {"diffusivity": sym.real(e, "nu"), "drag": sym.real(e, "lam"), "injection_mode": sym.integer(e, "kinj", lo=1),
                                                                     "injection_scale": sym.real(e, "gamma")})])
    # the three-dimensional direct checks need tens of seconds of z3 each: a larger time budget, so that a busy machine
    # does not turn them into "undecided"
    from symjnp.contracts import REGISTRY as _REG
    for k, c in _REG.items():
        if k.endswith("#C10") or "#C10:" in k:
            c.tscale = max(c.tscale, 2.0)


def _cur():
    from symjnp import engine
    return engine.cur()


# native forms (real jax, float64) of the C10 post-conditions: used by replays and by the bounded conformance sweep
def _rand_hat(shape, seed=0):
    import numpy as np
    r = np.random.default_rng(seed)
    return r.normal(size=shape) + 1j * r.normal(size=shape)


def _native_leray(res, D, L, N):
    import numpy as np
    proj, dop = res
    dop = np.asarray(dop)
    uh = _rand_hat(dop.shape)
    out, fails = np.asarray(proj(uh)), []
    div = (dop * out).sum(axis=0)
    scale = 1 + np.abs(dop).max() * np.abs(uh).max()
    if np.abs(div).max() > 1e-9 * scale:
        fails.append(f"max |spectral divergence of the projection| = {np.abs(div).max()!r}")
    if np.abs(np.asarray(proj(out)) - out).max() > 1e-9 * (1 + np.abs(out).max()):
        fails.append("the projection is not idempotent")
    return fails


def _native_make_incompressible(res, field, indexing="ij"):
    import numpy as np
    from exponax.nonlin_fun import Leray
    D, N = field.shape[0], field.shape[1]
    fails = []
    for L in (1.0, 3.0):
        dop = ex.spectral.build_derivative_operator(D, L, N)
        via = ex.ifft(Leray(D, N, derivative_operator=dop)(ex.fft(field, num_spatial_dims=D)), num_spatial_dims=D, num_points=N)
        if np.abs(np.asarray(res) - np.asarray(via)).max() > 1e-9 * (1 + np.abs(np.asarray(via)).max()):
            fails.append(f"make_incompressible(u) differs from irfftn(Leray_L(rfftn u)) for L = {L}")
    return fails


def _native_div_free_term(res, L, N, **kw):
    import numpy as np
    nl, dop = res
    dop = np.asarray(dop)
    uh = np.fft.rfftn(np.random.default_rng(0).normal(size=(3, int(N), int(N), int(N))), axes=(1, 2, 3))
    out = np.asarray(nl(uh))
    div = (dop * out).sum(axis=0)
    return [f"max |spectral divergence of the convection term| = {np.abs(div).max()!r}"] if np.abs(div).max() > 1e-7 * (1 + np.abs(out).max() * np.abs(dop).max()) else []


_register_c10()
