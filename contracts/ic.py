"""Contracts for exponax.ic (C18, option guards of C20)."""
from __future__ import annotations

import types

import exponax.ic as _ICmod
from exponax.ic._base_ic import BaseIC, BaseRandomICGenerator
from specs import ic as SI
from specs import spectral as S
from specs.base import T
from symjnp import ops, smt, sym, values
from symjnp.contracts import Case, Contract, ObjSpec, make_instance
from symjnp.values import SArr

IC = types.SimpleNamespace(**{n: getattr(_ICmod, n) for n in dir(_ICmod) if not n.startswith("_")})
from exponax.ic._discontinuities import Discontinuity as _Disc  # noqa: E402
IC.Discontinuity = _Disc
DIMS = (1, 2, 3)
FLAGS = [(z, s, m) for z in (True, False) for s in (True, False) for m in (True, False)]
NOTE = "normalisation divides by the standard deviation / maximum of the field, assumed non-zero (non-constant field)"


def _bad(z, s, m):
    return ((not z) and s) or (s and m)


def _key():
    return ops.Key(("seed", "k"))


def _ic_field(e, D, name="ic"):
    N = sym.integer(e, "N", lo=1)
    return sym.array(e, name, (1,) + (N,) * D), N


B = "exponax.ic._base_ic."
Contract(B + "validate_normalization_options", props={"C18", "C20"},
         cases=[Case(f"zero_mean={z},std_one={s},max_one={m}", lambda e, z=z, s=s, m=m: ((), {"zero_mean": z, "std_one": s, "max_one": m})) for (z, s, m) in FLAGS],
         raises=[(ValueError, lambda zero_mean, std_one, max_one: _bad(zero_mean, std_one, max_one))],
         spec=lambda zero_mean, std_one, max_one: None)

Contract(B + "normalize_ic", props={"C18"},
         cases=[Case(f"D={D},zero_mean={z},std_one={s},max_one={m}", lambda e, D=D, z=z, s=s, m=m: ((_ic_field(e, D)[0],), {"zero_mean": z, "std_one": s, "max_one": m}, {"no_div": NOTE}))
                for D in DIMS for (z, s, m) in FLAGS if not (s and m)],
         spec=lambda ic, zero_mean=True, std_one=False, max_one=False: SI.normalize(ic, zero_mean, std_one, max_one))

# ---------------------------------------------------------------------------------- white noise
Contract("exponax.ic._white_noise.WhiteNoise.__call__", props={"C18"},
         cases=[Case(f"D={D}", lambda e, D=D: ((make_instance(IC.WhiteNoise, {"num_spatial_dims": D, "indexing": "ij", "std": sym.real(e, "std")}), sym.integer(e, "N", lo=1)), {"key": _key()})) for D in DIMS],
         spec=lambda self, num_points, key: SI.white_noise(self.num_spatial_dims, num_points, key, self.std))


# ------------------------------------------------------------------- truncated Fourier series
def _tfs_ctor_cases():
    out = []
    for D in DIMS:
        for off in ((0.0, 0.0), (0.5, 1.5)):
            for s in (False, True):
                for m in (False, True):
                    out.append(Case(f"D={D},offset_range={off},std_one={s},max_one={m}",
                                    lambda e, D=D, off=off, s=s, m=m: ((D,), {"cutoff": sym.integer(e, "cut", lo=0), "offset_range": off, "std_one": s, "max_one": m})))
    out.append(Case("D=2,documented defaults (no option passed)", lambda e: ((2,), {})))
    # an arbitrary (symbolic) offset range: `std_one` must be refused unless BOTH end points are zero
    for s in (False, True):
        for m in (False, True):
            out.append(Case(f"D=1,offset_range=symbolic,std_one={s},max_one={m}",
                            lambda e, s=s, m=m: ((1,), {"offset_range": (sym.real(e, "o0"), sym.real(e, "o1")), "std_one": s, "max_one": m})))
    return out


T_Q = "exponax.ic._truncated_fourier_series.RandomTruncatedFourierSeries"
Contract(T_Q, props={"C18", "C20"}, cases=_tfs_ctor_cases(),
         raises=[(ValueError, lambda D, cutoff=5, offset_range=(0.0, 0.0), std_one=False, max_one=False: _bad(tuple(offset_range) == (0.0, 0.0), std_one, max_one))],
         spec=lambda D, cutoff=5, offset_range=(0.0, 0.0), std_one=False, max_one=False:
         ObjSpec(IC.RandomTruncatedFourierSeries, {"num_spatial_dims": D, "cutoff": cutoff, "offset_range": offset_range, "std_one": std_one, "max_one": max_one,
                                                   "white_noise": ObjSpec(IC.WhiteNoise, {"num_spatial_dims": D})}))


def _tfs_self(e, D, off, s, m):
    wn = make_instance(IC.WhiteNoise, {"num_spatial_dims": D, "indexing": "ij", "std": 1.0})
    return make_instance(IC.RandomTruncatedFourierSeries, {"num_spatial_dims": D, "indexing": "ij", "cutoff": sym.integer(e, "cut", lo=0), "offset_range": off,
                                                           "std_one": s, "max_one": m, "white_noise": wn})


Contract(T_Q + ".__call__", props={"C18"},
         cases=[Case(f"D={D},offset_range={off},std_one={s},max_one={m}",
                     lambda e, D=D, off=off, s=s, m=m: ((_tfs_self(e, D, off, s, m), sym.integer(e, "N", lo=1)), {"key": _key()}, {"no_div": NOTE}))
                for D in DIMS for (off, s, m) in (((0.0, 0.0), False, False), ((0.0, 0.0), True, False), ((0.0, 0.0), False, True), ((0.5, 1.5), False, False), ((0.5, 1.5), False, True))],
         spec=lambda self, num_points, key: SI.truncated_fourier_series(self, num_points, key))


# ------------------------------------------------------------------------ Gaussian random field
def _grf_self(e, cls, D, z, s, m, extra):
    wn = make_instance(IC.WhiteNoise, {"num_spatial_dims": D, "indexing": "ij", "std": 1.0})
    return make_instance(cls, dict({"num_spatial_dims": D, "indexing": "ij", "domain_extent": sym.pos_real(e, "L"), "zero_mean": z, "std_one": s, "max_one": m, "white_noise": wn}, **extra(e)))


NORMS = ((True, False, False), (True, True, False), (True, False, True), (False, False, False), (False, False, True))
G_Q = "exponax.ic._gaussian_random_field.GaussianRandomField"
Contract(G_Q, props={"C18", "C20"},
         cases=[Case(f"D={D},zero_mean={z},std_one={s},max_one={m}", lambda e, D=D, z=z, s=s, m=m: ((D,), {"domain_extent": sym.pos_real(e, "L"), "powerlaw_exponent": sym.real(e, "alpha"), "zero_mean": z, "std_one": s, "max_one": m}))
                for D in DIMS for (z, s, m) in FLAGS] + [Case("D=2,documented defaults (no option passed)", lambda e: ((2,), {}))],
         raises=[(ValueError, lambda D, domain_extent=1.0, powerlaw_exponent=3.0, zero_mean=True, std_one=False, max_one=False: _bad(zero_mean, std_one, max_one))],
         spec=lambda D, domain_extent=1.0, powerlaw_exponent=3.0, zero_mean=True, std_one=False, max_one=False:
         ObjSpec(IC.GaussianRandomField, {"num_spatial_dims": D, "domain_extent": domain_extent, "powerlaw_exponent": powerlaw_exponent, "zero_mean": zero_mean,
                                          "std_one": std_one, "max_one": max_one, "white_noise": ObjSpec(IC.WhiteNoise, {"num_spatial_dims": D})}))
Contract(G_Q + ".__call__", props={"C18"},
         cases=[Case(f"D={D},zero_mean={z},std_one={s},max_one={m}",
                     lambda e, D=D, z=z, s=s, m=m: ((_grf_self(e, IC.GaussianRandomField, D, z, s, m, lambda e: {"powerlaw_exponent": sym.real(e, "alpha")}), sym.integer(e, "N", lo=1)), {"key": _key()}, {"no_div": NOTE}))
                for D in DIMS for (z, s, m) in NORMS],
         spec=lambda self, num_points, key: SI.gaussian_random_field(self, num_points, key))

D_Q = "exponax.ic._diffused_noise.DiffusedNoise"
from fractions import Fraction as _Fr  # noqa: E402

Contract(D_Q + ".__call__", props={"C18"},
         cases=[Case(f"D={D},zero_mean={z},std_one={s},max_one={m}",
                     lambda e, D=D, z=z, s=s, m=m: ((_grf_self(e, IC.DiffusedNoise, D, z, s, m, lambda e: {"intensity": sym.real(e, "nu")}), sym.integer(e, "N", lo=1)), {"key": _key()}, {"no_div": NOTE}))
                for D in DIMS for (z, s, m) in NORMS[:3]],
         spec=lambda self, num_points, key: SI.diffused_noise(self, num_points, key)
         ).native_overrides = {"nu": _Fr(1, 200)}   # (native comparisons: a larger intensity flattens the field to rounding noise before it is normalised)


# ----------------------------------------------------------------------- wrappers (abstract inner)
class _AbsGen(BaseRandomICGenerator):
    """inner generator about which only determinism in (num_points, key) is known"""
    tag: str = "G"

    def __call__(self, num_points, *, key):
        k, shape = ops.Key(("gen", self.tag, key.tag)), (1,) + (num_points,) * self.num_spatial_dims
        from symjnp import native
        if native.IN_REAL_CALL[0]:   # called by the real code in a native run: the same draw, as a jax array
            import jax.numpy as jnp
            return jnp.asarray(native.draw_native(k, shape, "N"))
        return ops._rnd(k, shape, "N")[0]


def _abs_gen(D, tag="G"):
    return make_instance(_AbsGen, {"num_spatial_dims": D, "indexing": "ij", "tag": tag})


Contract("exponax.ic._clamping.ClampingICGenerator.__call__", props={"C18"},
         cases=[Case(f"D={D}", lambda e, D=D: ((make_instance(IC.ClampingICGenerator, {"num_spatial_dims": D, "indexing": "ij", "ic_gen": _abs_gen(D), "limits": (sym.real(e, "lo"), sym.real(e, "hi"))}),
                                                sym.integer(e, "N", lo=1)), {"key": _key()}, {"no_div": "the generated field is not constant (max - min != 0)"})) for D in DIMS],
         spec=lambda self, num_points, key: SI.clamp(self.ic_gen(num_points, key=key), self.limits))
Contract("exponax.ic._scaled.ScaledICGenerator.__call__", props={"C18"},
         cases=[Case(f"D={D}", lambda e, D=D: ((make_instance(IC.ScaledICGenerator, {"num_spatial_dims": D, "indexing": "ij", "ic_gen": _abs_gen(D), "scale": sym.real(e, "sc")}),
                                                sym.integer(e, "N", lo=1)), {"key": _key()})) for D in DIMS],
         spec=lambda self, num_points, key: self.ic_gen(num_points, key=key) * self.scale)


def _multi_spec(self, num_points, key):
    ks = ops.key_split(key, len(self.ic_generators))
    return values.concatenate([g(num_points, key=ks[j]) for j, g in enumerate(self.ic_generators)], 0)


Contract("exponax.ic._multi_channel.RandomMultiChannelICGenerator.__call__", props={"C18"},
         cases=[Case(f"D={D},generators={n}", lambda e, D=D, n=n: ((make_instance(IC.RandomMultiChannelICGenerator, {"ic_generators": tuple(_abs_gen(D, f"G{j}") for j in range(n))}),
                                                                    sym.integer(e, "N", lo=1)), {"key": _key()})) for D in DIMS for n in (1, 2, 3)],
         spec=_multi_spec)


# ------------------------------------------------------------------------------ function forms
def _grid(e, D):
    N = sym.integer(e, "N", lo=1)
    return sym.array(e, "x", (D,) + (N,) * D)


Contract("exponax.ic._discontinuities.Discontinuity.__call__", props={"C18"},
         cases=[Case(f"D={D}", lambda e, D=D: ((make_instance(IC.Discontinuity, {"lower_limits": tuple(sym.real(e, f"lb{j}") for j in range(D)),
                                                                                  "upper_limits": tuple(sym.real(e, f"ub{j}") for j in range(D)), "value": sym.real(e, "val")}), _grid(e, D)), {})) for D in DIMS],
         spec=lambda self, x: SI.discontinuity(self, x))


def _sine_ctor_cases():
    out = []
    for n in (1, 2):
        for off in ("zero", "symbolic"):
            for s in (False, True):
                for m in (False, True):
                    out.append(Case(f"waves={n},offset={off},std_one={s},max_one={m}",
                                    lambda e, n=n, off=off, s=s, m=m: ((sym.pos_real(e, "L"), tuple(sym.real(e, f"a{j}") for j in range(n)), tuple(sym.real(e, f"k{j}") for j in range(n)),
                                                                       tuple(sym.real(e, f"p{j}") for j in range(n))), {"offset": (0.0 if off == "zero" else sym.real(e, "off")), "std_one": s, "max_one": m})))
    out.append(Case("mismatched lengths", lambda e: ((sym.pos_real(e, "L"), (1.0, 2.0), (1.0,), (0.0,)), {})))
    return out


S_Q = "exponax.ic._sine_waves_1d.SineWaves1d"
Contract(S_Q, props={"C18", "C20"}, cases=_sine_ctor_cases(),
         raises=[(ValueError, lambda L, amplitudes, wavenumbers, phases, offset=0.0, std_one=False, max_one=False:
                  smt.bor(smt.bor(smt.band(smt.rne(T(offset), 0), std_one), std_one and max_one), len(amplitudes) != len(wavenumbers) or len(wavenumbers) != len(phases)))],
         spec=lambda L, amplitudes, wavenumbers, phases, offset=0.0, std_one=False, max_one=False:
         ObjSpec(IC.SineWaves1d, {"domain_extent": L, "amplitudes": amplitudes, "wavenumbers": wavenumbers, "phases": phases, "offset": offset, "std_one": std_one, "max_one": max_one}))


def _sine_self(e, n, s, m, off):
    return make_instance(IC.SineWaves1d, {"domain_extent": sym.pos_real(e, "L"), "amplitudes": tuple(sym.real(e, f"a{j}") for j in range(n)),
                                          "wavenumbers": tuple(sym.real(e, f"k{j}") for j in range(n)), "phases": tuple(sym.real(e, f"p{j}") for j in range(n)),
                                          "offset": (sym.real(e, "off") if off else 0.0), "std_one": s, "max_one": m})


Contract(S_Q + ".__call__", props={"C18", "C20"},
         cases=[Case(f"waves={n},std_one={s},max_one={m},offset={off}", lambda e, n=n, s=s, m=m, off=off: ((_sine_self(e, n, s, m, off), _grid(e, 1)), {}, {"no_div": NOTE}))
                for n in (1, 3) for (s, m, off) in ((False, False, True), (True, False, False), (False, True, True))]
         + [Case("2d grid", lambda e: ((_sine_self(e, 1, False, False, False), _grid(e, 2)), {}))],
         raises=[(ValueError, lambda self, x: x.shape[0] != 1)],
         spec=lambda self, x: SI.sine_waves(self, x))
