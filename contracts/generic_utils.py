"""Contracts for the coefficient conversion functions of exponax.stepper.generic._utils (C13):
each equals its documented formula for every L, dt, N, D, maximum_absolute and coefficient value."""
from __future__ import annotations

from specs import steppers as SS
from specs.base import T
from symjnp import smt, sym, values
from symjnp.contracts import Case, Contract

U = "exponax.stepper.generic._utils."
LENS = (1, 2, 3, 5, 7)


def _sf(t):
    return t if smt.is_conc(t) else values.SFloat(t)


def _tup(ts):
    return tuple(_sf(t) for t in ts)


def _coefs(e, n, name="a"):
    return tuple(sym.real(e, f"{name}{j}") for j in range(n))


def _ld(e):
    return {"domain_extent": sym.pos_real(e, "L"), "dt": sym.real(e, "dt", nonzero=True)}


def _dn(e, D, with_m=False):
    kw = {"num_spatial_dims": D, "num_points": sym.integer(e, "N", lo=1)}
    if with_m:
        kw["maximum_absolute"] = sym.pos_real(e, "Mabs")
    return kw


NZ = lambda domain_extent, dt: [("domain_extent != 0", smt.rne(T(domain_extent), 0)), ("dt != 0", smt.rne(T(dt), 0))]  # noqa: E731

Contract(U + "normalize_coefficients", props={"C13"},
         cases=[Case(f"len={n}", lambda e, n=n: ((_coefs(e, n),), _ld(e))) for n in LENS],
         requires=lambda coefficients, domain_extent, dt: NZ(domain_extent, dt),
         spec=lambda coefficients, domain_extent, dt: _tup(SS.normalize_coefficients(coefficients, domain_extent, dt)))
Contract(U + "denormalize_coefficients", props={"C13"},
         cases=[Case(f"len={n}", lambda e, n=n: ((_coefs(e, n, "al"),), _ld(e))) for n in LENS],
         requires=lambda normalized_coefficients, domain_extent, dt: NZ(domain_extent, dt),
         spec=lambda normalized_coefficients, domain_extent, dt: _tup(SS.denormalize_coefficients(normalized_coefficients, domain_extent, dt)))

# scalar scales: (name, documented formula)
_SCALAR = {
    "normalize_convection_scale": lambda b, L, dt: smt.rdiv(smt.rmul(T(b), T(dt)), T(L)),                       # beta_1 = b_1 dt / L
    "denormalize_convection_scale": lambda b, L, dt: smt.rdiv(smt.rmul(T(b), T(L)), T(dt)),                     # b_1 = beta_1 L / dt
    "normalize_gradient_norm_scale": lambda b, L, dt: smt.rdiv(smt.rmul(T(b), T(dt)), smt.rpow_int(T(L), 2)),   # beta_2 = b_2 dt / L^2
    "denormalize_gradient_norm_scale": lambda b, L, dt: smt.rdiv(smt.rmul(T(b), smt.rpow_int(T(L), 2)), T(dt)),  # b_2 = beta_2 L^2 / dt
}
for _n, _f in _SCALAR.items():
    Contract(U + _n, props={"C13"}, cases=[Case("symbolic", lambda e: ((sym.real(e, "b"),), _ld(e)))],
             requires=lambda x, domain_extent, dt: NZ(domain_extent, dt),
             spec=(lambda f: (lambda x, domain_extent, dt: _sf(f(x, domain_extent, dt))))(_f))

Contract(U + "normalize_polynomial_scales", props={"C13"},
         cases=[Case(f"len={n}", lambda e, n=n: ((_coefs(e, n, "c"),), {"dt": sym.real(e, "dt", nonzero=True)})) for n in LENS],
         spec=lambda polynomial_scales, domain_extent=None, dt=None: _tup([smt.rmul(T(c), T(dt)) for c in polynomial_scales]))  # c dt
Contract(U + "denormalize_polynomial_scales", props={"C13"},
         cases=[Case(f"len={n}", lambda e, n=n: ((_coefs(e, n, "c"),), {"dt": sym.real(e, "dt", nonzero=True)})) for n in LENS],
         requires=lambda normalized_polynomial_scales, domain_extent=None, dt=None: [("dt != 0", smt.rne(T(dt), 0))],
         spec=lambda normalized_polynomial_scales, domain_extent=None, dt=None: _tup([smt.rdiv(T(c), T(dt)) for c in normalized_polynomial_scales]))

for _D in (1, 2, 3):
    pass

Contract(U + "reduce_normalized_coefficients_to_difficulty", props={"C13"},
         cases=[Case(f"D={D},len={n}", lambda e, D=D, n=n: ((_coefs(e, n, "al"),), _dn(e, D))) for D in (1, 2, 3) for n in LENS],
         spec=lambda normalized_coefficients, num_spatial_dims, num_points: _tup(SS.reduce_coefficients(normalized_coefficients, num_spatial_dims, num_points)))
Contract(U + "extract_normalized_coefficients_from_difficulty", props={"C13", "C01"},
         cases=[Case(f"D={D},len={n}", lambda e, D=D, n=n: ((_coefs(e, n, "ga"),), _dn(e, D))) for D in (1, 2, 3) for n in LENS],
         spec=lambda difficulty_coefficients, num_spatial_dims, num_points: _tup(SS.extract_coefficients(difficulty_coefficients, num_spatial_dims, num_points)))

_DIFF = {
    "reduce_normalized_convection_scale_to_difficulty": SS.reduce_convection,
    "extract_normalized_convection_scale_from_difficulty": SS.extract_convection,
    "reduce_normalized_gradient_norm_scale_to_difficulty": SS.reduce_gradient_norm,
    "extract_normalized_gradient_norm_scale_from_difficulty": SS.extract_gradient_norm,
}
for _n, _f in _DIFF.items():
    Contract(U + _n, props={"C13"},
             cases=[Case(f"D={D}", lambda e, D=D: ((sym.real(e, "x"),), _dn(e, D, True))) for D in (1, 2, 3)],
             requires=lambda x, num_spatial_dims, num_points, maximum_absolute: [("maximum_absolute != 0", smt.rne(T(maximum_absolute), 0))],
             spec=(lambda f: (lambda x, num_spatial_dims, num_points, maximum_absolute: _sf(f(x, num_spatial_dims, num_points, maximum_absolute))))(_f))


def _nl_reduce(scales, D, N, M):
    """delta_0 = beta_0, delta_1 = beta_1 M N D, delta_2 = beta_2 M N^2 D"""
    return (scales[0], _sf(SS.reduce_convection(scales[1], D, N, M)), _sf(SS.reduce_gradient_norm(scales[2], D, N, M)))


def _nl_extract(diffs, D, N, M):
    return (diffs[0], _sf(SS.extract_convection(diffs[1], D, N, M)), _sf(SS.extract_gradient_norm(diffs[2], D, N, M)))


Contract(U + "reduce_normalized_nonlinear_scales_to_difficulty", props={"C13"},
         cases=[Case(f"D={D}", lambda e, D=D: ((_coefs(e, 3, "be"),), _dn(e, D, True))) for D in (1, 2, 3)],
         spec=lambda normalized_nonlinear_scales, num_spatial_dims, num_points, maximum_absolute: _nl_reduce(normalized_nonlinear_scales, num_spatial_dims, num_points, maximum_absolute))
Contract(U + "extract_normalized_nonlinear_scales_from_difficulty", props={"C13"},
         cases=[Case(f"D={D}", lambda e, D=D: ((_coefs(e, 3, "de"),), _dn(e, D, True))) for D in (1, 2, 3)],
         spec=lambda nonlinear_difficulties, num_spatial_dims, num_points, maximum_absolute: _nl_extract(nonlinear_difficulties, num_spatial_dims, num_points, maximum_absolute))


# C13 is decided by the direct pair checks (contracts/direct_pairs.py) TOGETHER with these: "the conversion functions ...
# follow the documented formulas" is part of its statement
from symjnp.contracts import REGISTRY as _REG  # noqa: E402
for _q, _c in _REG.items():
    if _c.qualname.startswith(U):
        _c.also_direct = {"C13"}
