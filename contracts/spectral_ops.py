"""Contracts for the transform-based functions of exponax._spectral and the grid utilities of exponax._utils."""
from __future__ import annotations

from specs import spectral as S
from specs.base import T, wshape
from symjnp import smt, sym
from symjnp.contracts import Case, Contract

M = "exponax._spectral."
DIMS = (1, 2, 3)
ALLF = {"C01", "C02", "C03", "C04", "C05", "C08", "C09", "C10", "C12", "C14", "C15", "C16", "C17", "C18"}


def _state(e, D, name="u", C=None, lo=1):
    N = sym.integer(e, "N", lo=lo)
    C = sym.integer(e, "C", lo=1) if C is None else C
    return sym.array(e, name, (C,) + (N,) * D), N


def _state_hat(e, D, name="uh", C=None):
    N = sym.integer(e, "N", lo=1)
    C = sym.integer(e, "C", lo=1) if C is None else C
    return sym.array(e, name, (C,) + wshape(D, N), "complex"), N


Contract(M + "fft", props=ALLF,
         cases=[Case(f"D={D},nsd={'given' if g else 'None'}", lambda e, D=D, g=g: ((_state(e, D)[0],), {"num_spatial_dims": D if g else None}))
                for D in DIMS for g in (True, False)],
         spec=lambda field, num_spatial_dims=None: S.fft(field, num_spatial_dims))


def _ifft_cases():
    out = []
    for D in DIMS:
        for g in (True, False):
            for p in (True, False):
                def build(e, D=D, g=g, p=p):
                    uh, N = _state_hat(e, D)
                    return (uh,), {"num_spatial_dims": D if g else None, "num_points": N if p else None}
                out.append(Case(f"D={D},nsd={'given' if g else 'None'},num_points={'given' if p else 'None'}", build))
    return out


Contract(M + "ifft", props=ALLF | {"C20"}, cases=_ifft_cases(),
         raises=[(ValueError, lambda field_hat, num_spatial_dims=None, num_points=None:
                  (field_hat.ndim - 1 if num_spatial_dims is None else num_spatial_dims) == 1 and num_points is None)],
         spec=lambda field_hat, num_spatial_dims=None, num_points=None: S.ifft(field_hat, num_spatial_dims, num_points))


def _der_cases():
    out = []
    for D in DIMS:
        for order in (1, 2, 3, 4, 5, 6):
            for ix in ("ij", "xy"):
                if ix == "xy" and order > 2:
                    continue
                def build(e, D=D, order=order, ix=ix):
                    u, N = _state(e, D)
                    return (u, sym.pos_real(e, "L")), {"order": order, "indexing": ix}
                out.append(Case(f"D={D},order={order},indexing={ix}", build))
    return out


Contract(M + "derivative", props={"C05", "C16"}, cases=_der_cases(),
         spec=lambda field, domain_extent, order=1, indexing="ij": S.derivative(field, domain_extent, order, indexing))


def _mi_cases():
    out = []
    for D in DIMS:
        for ix in ("ij", "xy"):
            out.append(Case(f"D={D},indexing={ix}", lambda e, D=D, ix=ix: ((_state(e, D, C=D)[0],), {"indexing": ix})))
        for wrong in (1, 2, 3, 4):
            if wrong != D:
                out.append(Case(f"D={D},channels={wrong}", lambda e, D=D, w=wrong: ((_state(e, D, C=w)[0],), {})))
    return out


Contract(M + "make_incompressible", props={"C10", "C20"}, cases=_mi_cases(),
         raises=[(ValueError, lambda field, indexing="ij": field.shape[0] != field.ndim - 1)],
         spec=lambda field, indexing="ij": S.make_incompressible(field, indexing))


def _gfc_cases():
    out = []
    for D in DIMS:
        for mode in ("norm_compensation", "reconstruction", "coef_extraction", None):
            for rnd in (None, 5):
                for ix in ("ij", "xy"):
                    if ix == "xy" and (rnd is not None or mode is None):
                        continue
                    out.append(Case(f"D={D},mode={mode},round={rnd},indexing={ix}",
                                    lambda e, D=D, mode=mode, rnd=rnd, ix=ix: ((_state(e, D)[0],), {"scaling_compensation_mode": mode, "round": rnd, "indexing": ix},
                                                                                     # decimal rounding is not modelled (the spec is the unrounded value): a native comparison may differ by half a unit of the last kept digit
                                                                                     {"native_tol": 0.75 * 10.0 ** (-rnd)} if rnd is not None else {})))
    return out


Contract(M + "get_fourier_coefficients", props={"C04"}, cases=_gfc_cases(),
         spec=lambda state, scaling_compensation_mode="coef_extraction", round=5, indexing="ij":
         S.fourier_coefficients(state, scaling_compensation_mode, round, indexing))


def _spec_cases():
    out = []
    for D in DIMS:
        for power in (True, False):
            for rb in ("sum", "average"):
                out.append(Case(f"D={D},power={power},binning={rb}",
                                lambda e, D=D, power=power, rb=rb: ((_state(e, D, lo=2)[0],), {"power": power, "radial_binning": rb})))
    return out


Contract(M + "get_spectrum", props={"C17"}, cases=_spec_cases(),
         spec=lambda state, power=True, radial_binning="sum": S.spectrum(state, power, radial_binning))


# ---------------------------------------------------------------------------------- _utils
U = "exponax._utils."


def _grid_cases():
    out = []
    for D in DIMS:
        for full in (False, True):
            for zc in (False, True):
                for ix in ("ij", "xy"):
                    out.append(Case(f"D={D},full={full},zero_centered={zc},indexing={ix}",
                                    lambda e, D=D, full=full, zc=zc, ix=ix: ((D, sym.pos_real(e, "L"), sym.integer(e, "N", lo=1)), {"full": full, "zero_centered": zc, "indexing": ix})))
    return out


Contract(U + "make_grid", props={"C04", "C15", "C18"}, cases=_grid_cases(),
         spec=lambda D, L, N, full=False, zero_centered=False, indexing="ij": S.grid(D, L, N, full, zero_centered, indexing))

Contract(U + "wrap_bc", props={"C04"},
         cases=[Case(f"D={D}", lambda e, D=D: ((_state(e, D)[0],), {})) for D in DIMS],
         spec=lambda u: S.wrap_bc(u))
