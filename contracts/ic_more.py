"""Contracts for the remaining public generators / function forms of exponax.ic (C18) and build_ic_set (C14, C18)."""
from __future__ import annotations

import math as _math
import types

import exponax._utils as _U
from exponax.ic._base_ic import BaseRandomICGenerator
from exponax.ic import _discontinuities as _D
from exponax.ic import _gaussian_blob as _G
from exponax.ic import _multi_channel as _M
from exponax.ic import _scaled as _S
from exponax.ic import _sine_waves_1d as _W
from specs import ic as SI
from specs import spectral as S
from specs.base import T
from symjnp import ops, smt, sym, values
from symjnp.contracts import Case, Contract, ObjSpec, make_instance
from symjnp.values import SArr

# (the real classes, snapshotted: inside a contract's spec the module attribute may be a stub)
R = types.SimpleNamespace(Discontinuity=_D.Discontinuity, Discontinuities=_D.Discontinuities, RandomDiscontinuities=_D.RandomDiscontinuities,
                          GaussianBlob=_G.GaussianBlob, GaussianBlobs=_G.GaussianBlobs, RandomGaussianBlobs=_G.RandomGaussianBlobs,
                          MultiChannelIC=_M.MultiChannelIC, RandomMultiChannelICGenerator=_M.RandomMultiChannelICGenerator,
                          ScaledIC=_S.ScaledIC, ScaledICGenerator=_S.ScaledICGenerator, SineWaves1d=_W.SineWaves1d, RandomSineWaves1d=_W.RandomSineWaves1d)
DIMS = (1, 2, 3)
FLAGS = [(z, s, m) for z in (True, False) for s in (True, False) for m in (True, False)]
NORMS = ((True, False, False), (True, True, False), (True, False, True), (False, False, False), (False, False, True))
NOTE = "normalisation divides by the standard deviation / maximum of the field, assumed non-zero (non-constant field)"


def _bad(z, s, m):
    return ((not z) and s) or (s and m)


def _key():
    return ops.Key(("seed", "k"))


def _grid(e, D):
    N = sym.integer(e, "N", lo=1)
    return sym.array(e, "x", (D,) + (N,) * D)


def _disc(e, D, tag):
    return make_instance(R.Discontinuity, {"lower_limits": tuple(sym.real(e, f"lb{tag}{j}") for j in range(D)),
                                           "upper_limits": tuple(sym.real(e, f"ub{tag}{j}") for j in range(D)), "value": sym.real(e, f"val{tag}")})


# ------------------------------------------------------------------------------- discontinuities
Q = "exponax.ic._discontinuities."
Contract(Q + "Discontinuities", props={"C18", "C20"},
         cases=[Case(f"zero_mean={z},std_one={s},max_one={m}", lambda e, z=z, s=s, m=m: (((_disc(e, 1, "a"),),), {"zero_mean": z, "std_one": s, "max_one": m})) for (z, s, m) in FLAGS]
         + [Case("documented defaults (no option passed)", lambda e: (((_disc(e, 1, "a"),),), {}))],
         raises=[(ValueError, lambda discontinuity_list, zero_mean=True, std_one=False, max_one=False: _bad(zero_mean, std_one, max_one))],
         spec=lambda discontinuity_list, zero_mean=True, std_one=False, max_one=False:
         ObjSpec(R.Discontinuities, {"discontinuity_list": discontinuity_list, "zero_mean": zero_mean, "std_one": std_one, "max_one": max_one}))


def _discs_self(e, D, n, z, s, m):
    return make_instance(R.Discontinuities, {"discontinuity_list": tuple(_disc(e, D, "abc"[j]) for j in range(n)), "zero_mean": z, "std_one": s, "max_one": m})


Contract(Q + "Discontinuities.__call__", props={"C18"},
         cases=[Case(f"D={D},n={n},zero_mean={z},std_one={s},max_one={m}", lambda e, D=D, n=n, z=z, s=s, m=m: ((_discs_self(e, D, n, z, s, m), _grid(e, D)), {}, {"no_div": NOTE}))
                for D in DIMS for n in (1, 2) for (z, s, m) in NORMS],
         spec=lambda self, x: SI.discontinuities(self, x))

Contract(Q + "RandomDiscontinuities", props={"C18", "C20"},
         cases=[Case(f"D={D},zero_mean={z},std_one={s},max_one={m}", lambda e, D=D, z=z, s=s, m=m: ((D,), {"domain_extent": sym.pos_real(e, "L"), "num_discontinuities": 2,
                                                                                                 "value_range": (sym.real(e, "v0"), sym.real(e, "v1")), "zero_mean": z, "std_one": s, "max_one": m}))
                for D in DIMS for (z, s, m) in FLAGS] + [Case("D=2,documented defaults (no option passed)", lambda e: ((2,), {}))],
         raises=[(ValueError, lambda D, domain_extent=1.0, num_discontinuities=3, value_range=(-1.0, 1.0), zero_mean=False, std_one=False, max_one=False: _bad(zero_mean, std_one, max_one))],
         spec=lambda D, domain_extent=1.0, num_discontinuities=3, value_range=(-1.0, 1.0), zero_mean=False, std_one=False, max_one=False:
         ObjSpec(R.RandomDiscontinuities, {"num_spatial_dims": D, "domain_extent": domain_extent, "num_discontinuities": num_discontinuities, "value_range": value_range,
                                           "zero_mean": zero_mean, "std_one": std_one, "max_one": max_one}))


def _rdisc_self(e, D, n, z=False, s=False, m=False):
    return make_instance(R.RandomDiscontinuities, {"num_spatial_dims": D, "indexing": "ij", "domain_extent": sym.pos_real(e, "L"), "num_discontinuities": n,
                                                   "value_range": (sym.real(e, "v0"), sym.real(e, "v1")), "zero_mean": z, "std_one": s, "max_one": m})


def _one_disc_spec(self, key):
    lo, up, val = SI.random_discontinuity_fields(self, key)
    return ObjSpec(R.Discontinuity, {"lower_limits": lo, "upper_limits": up, "value": val})


Contract(Q + "RandomDiscontinuities.gen_one_ic_fn", props={"C18"},
         cases=[Case(f"D={D}", lambda e, D=D: ((_rdisc_self(e, D, 2),), {"key": _key()})) for D in DIMS],
         spec=_one_disc_spec)
Contract(Q + "RandomDiscontinuities.gen_ic_fun", props={"C18"},
         cases=[Case(f"D={D},n={n},zero_mean={z},std_one={s},max_one={m}", lambda e, D=D, n=n, z=z, s=s, m=m: ((_rdisc_self(e, D, n, z, s, m),), {"key": _key()}))
                for D in DIMS for n in (1, 3) for (z, s, m) in ((False, False, False), (True, True, False), (True, False, True))],
         spec=lambda self, key: ObjSpec(R.Discontinuities, {"discontinuity_list": [_one_disc_spec(self, ops.key_split(key, self.num_discontinuities)[j]) for j in range(self.num_discontinuities)],
                                                            "zero_mean": self.zero_mean, "std_one": self.std_one, "max_one": self.max_one}))

# -------------------------------------------------------------------------------- Gaussian blobs
G = "exponax.ic._gaussian_blob."


def _cov(e, D, kind):
    if kind == "diagonal":
        v = [smt.R(sym.pos_real(e, f"var{j}")) for j in range(D)]
        return SArr((D, D), lambda idx: (v[int(idx[0])] if int(idx[0]) == int(idx[1]) else 0), "real")
    return sym.matrix(e, "cov", D, D)


def _det_nonzero(covariance):
    M = values.const_arr(covariance)
    n = M.shape[0]
    m = [[smt.R(M.at_((i, j))) for j in range(n)] for i in range(n)]
    if all(smt.is_conc(m[i][j]) and m[i][j] == 0 for i in range(n) for j in range(n) if i != j):
        # syntactically diagonal: det != 0  <=>  every diagonal entry != 0 (stated factor by factor: low-degree goals)
        ok = True
        for i in range(n):
            ok = smt.band(ok, smt.rne(m[i][i], 0))
        return ok
    _, det = ops.adjugate_det(m)
    return smt.rne(det, 0)


Contract(G + "GaussianBlob", props={"C18"},
         cases=[Case(f"D={D},covariance={kind},one_complement={oc}", lambda e, D=D, kind=kind, oc=oc: ((sym.vector(e, "pos", D), _cov(e, D, kind)), {"one_complement": oc}))
                for D in DIMS for kind in ("diagonal", "full") for oc in (False, True)],
         requires=lambda position, covariance, one_complement=False: [("the covariance is invertible (determinant != 0)", _det_nonzero(covariance))],
         spec=lambda position, covariance, one_complement=False:
         ObjSpec(R.GaussianBlob, {"position": position, "covariance": covariance, "_inv_covariance": SI.matrix_inverse(covariance), "one_complement": one_complement}))


def _blob(e, D, tag, oc=False):
    return make_instance(R.GaussianBlob, {"position": sym.vector(e, f"pos{tag}", D), "covariance": sym.matrix(e, f"cov{tag}", D, D),
                                          "_inv_covariance": sym.matrix(e, f"W{tag}", D, D), "one_complement": oc})


Contract(G + "GaussianBlob.__call__", props={"C18", "C20"},
         cases=[Case(f"D={D},one_complement={oc}", lambda e, D=D, oc=oc: ((_blob(e, D, "a", oc), _grid(e, D)), {})) for D in DIMS for oc in (False, True)]
         + [Case(f"grid of {Dx} dims for a {D}-d blob", lambda e, D=D, Dx=Dx: ((_blob(e, D, "a"), _grid(e, Dx)), {})) for (D, Dx) in ((1, 2), (2, 1), (3, 2))],
         raises=[(ValueError, lambda self, x: x.shape[0] != self.position.shape[0])],
         spec=lambda self, x: SI.gaussian_blob(self, x))
Contract(G + "GaussianBlobs.__call__", props={"C18"},
         cases=[Case(f"D={D},blobs={n}", lambda e, D=D, n=n: ((make_instance(R.GaussianBlobs, {"blob_list": tuple(_blob(e, D, "abc"[j], j == 1) for j in range(n))}), _grid(e, D)), {}))
                for D in DIMS for n in (1, 2, 3)],
         spec=lambda self, x: SI.gaussian_blobs(self, x))


Contract(G + "RandomGaussianBlobs", props={"C18"},
         cases=[Case(f"D={D},explicit options", lambda e, D=D: ((D,), {"domain_extent": sym.pos_real(e, "L"), "num_blobs": 2, "position_range": (sym.real(e, "p0"), sym.real(e, "p1")),
                                                                    "variance_range": (sym.pos_real(e, "s0"), sym.pos_real(e, "s1")), "one_complement": True})) for D in DIMS]
         + [Case("D=2,documented defaults (no option passed)", lambda e: ((2,), {}))],
         spec=lambda D, domain_extent=1.0, num_blobs=1, position_range=(0.4, 0.6), variance_range=(0.005, 0.01), one_complement=False:
         ObjSpec(R.RandomGaussianBlobs, {"num_spatial_dims": D, "domain_extent": domain_extent, "num_blobs": num_blobs, "position_range": position_range,
                                         "variance_range": variance_range, "one_complement": one_complement}))


def _rblob_self(e, D, n, oc):
    return make_instance(R.RandomGaussianBlobs, {"num_spatial_dims": D, "indexing": "ij", "domain_extent": sym.pos_real(e, "L"), "num_blobs": n,
                                                 "position_range": (sym.real(e, "p0"), sym.real(e, "p1")), "variance_range": (sym.pos_real(e, "s0"), sym.pos_real(e, "s1")),
                                                 "one_complement": oc})


def _blob_spec(self, key):
    pos, cov = SI.random_blob_fields(self, key)
    return ObjSpec(R.GaussianBlob, {"position": pos, "covariance": cov, "_inv_covariance": SI.matrix_inverse(cov), "one_complement": self.one_complement})


def _blobs_spec(self, key):
    out, k = [], key
    for _ in range(self.num_blobs):      # documented: the key is split anew for every blob, the first child is carried on
        ks = ops.key_split(k, 2)
        k = ks[0]
        out.append(_blob_spec(self, ks[1]))
    return ObjSpec(R.GaussianBlobs, {"blob_list": tuple(out)})


VAR_POS = "the drawn variances are non-zero (variance_range is positive and ordered)"
Contract(G + "RandomGaussianBlobs.gen_blob", props={"C18"},
         cases=[Case(f"D={D},one_complement={oc}", lambda e, D=D, oc=oc: ((_rblob_self(e, D, 1, oc),), {"key": _key()}, {"no_div": VAR_POS})) for D in DIMS for oc in (False, True)],
         spec=_blob_spec)
Contract(G + "RandomGaussianBlobs.gen_ic_fun", props={"C18"},
         cases=[Case(f"D={D},blobs={n}", lambda e, D=D, n=n: ((_rblob_self(e, D, n, False),), {"key": _key()}, {"no_div": VAR_POS})) for D in DIMS for n in (1, 2)],
         spec=_blobs_spec)


# ------------------------------------------------------------------- wrappers in function form
class _AbsFun:
    """an initial-condition function about which nothing is known: x -> one channel, through an uninterpreted operator"""

    def __init__(self, tag):
        self.tag = tag

    def __call__(self, x):
        return sym.AbstractOp(f"icfun_{self.tag}")(x)[0:1]

    def __eq__(self, o):
        return isinstance(o, _AbsFun) and o.tag == self.tag

    def __hash__(self):
        return hash(self.tag)


Contract("exponax.ic._multi_channel.MultiChannelIC.__call__", props={"C18"},
         cases=[Case(f"D={D},functions={n}", lambda e, D=D, n=n: ((make_instance(R.MultiChannelIC, {"initial_conditions": tuple(_AbsFun(f"f{j}") for j in range(n))}), _grid(e, D)), {}))
                for D in DIMS for n in (1, 2, 3)],
         spec=lambda self, x: values.concatenate([f(x) for f in self.initial_conditions], 0))
Contract("exponax.ic._scaled.ScaledIC.__call__", props={"C18"},
         cases=[Case(f"D={D}", lambda e, D=D: ((make_instance(R.ScaledIC, {"ic": _AbsFun("f"), "scale": sym.real(e, "sc")}), _grid(e, D)), {})) for D in DIMS],
         spec=lambda self, x: self.ic(x) * self.scale)


class _AbsFunGen(BaseRandomICGenerator):
    """a generator in function form: gen_ic_fun(key) is an unknown function determined by (tag, key)"""
    domain_extent: float = 1.0
    tag: str = "G"

    def gen_ic_fun(self, *, key):
        return _AbsFun((self.tag, key.tag))


def _fungen(e, D, tag="G"):
    return make_instance(_AbsFunGen, {"num_spatial_dims": D, "indexing": "ij", "domain_extent": sym.pos_real(e, "L"), "tag": tag})


Contract("exponax.ic._scaled.ScaledICGenerator.gen_ic_fun", props={"C18"},
         cases=[Case(f"D={D}", lambda e, D=D: ((make_instance(R.ScaledICGenerator, {"num_spatial_dims": D, "indexing": "ij", "ic_gen": _fungen(e, D), "scale": sym.real(e, "sc")}),), {"key": _key()})) for D in DIMS],
         spec=lambda self, key: ObjSpec(R.ScaledIC, {"ic": self.ic_gen.gen_ic_fun(key=key), "scale": self.scale}))
Contract("exponax.ic._multi_channel.RandomMultiChannelICGenerator.gen_ic_fun", props={"C18"},
         cases=[Case(f"D={D},generators={n}", lambda e, D=D, n=n: ((make_instance(R.RandomMultiChannelICGenerator, {"ic_generators": tuple(_fungen(e, D, f"G{j}") for j in range(n))}),), {"key": _key()}))
                for D in (1, 2) for n in (1, 2, 3)],
         spec=lambda self, key: ObjSpec(R.MultiChannelIC, {"initial_conditions": [g.gen_ic_fun(key=ops.key_split(key, len(self.ic_generators))[j]) for j, g in enumerate(self.ic_generators)]}))

# the sampled form is the function form evaluated on the grid of the generator (documented in BaseRandomICGenerator)
Contract("exponax.ic._base_ic.BaseRandomICGenerator.__call__", props={"C18"},
         cases=[Case(f"D={D},indexing={ix}", lambda e, D=D, ix=ix: ((make_instance(_AbsFunGen, {"num_spatial_dims": D, "indexing": ix, "domain_extent": sym.pos_real(e, "L"), "tag": "G"}),
                                                                    sym.integer(e, "N", lo=1)), {"key": _key()})) for D in DIMS for ix in ("ij", "xy")],
         spec=lambda self, num_points, key: self.gen_ic_fun(key=key)(S.grid(self.num_spatial_dims, self.domain_extent, num_points, False, False, self.indexing)))

# ---------------------------------------------------------------------------- random sine waves
W = "exponax.ic._sine_waves_1d.RandomSineWaves1d"


def _rsw_bad(D, offset_range, std_one, max_one):
    return D != 1 or (tuple(offset_range) != (0.0, 0.0) and std_one) or (std_one and max_one)


Contract(W, props={"C18", "C20"},
         cases=[Case(f"D={D},offset_range={off},std_one={s},max_one={m}", lambda e, D=D, off=off, s=s, m=m: ((D,), {"domain_extent": sym.pos_real(e, "L"), "cutoff": sym.integer(e, "cut", lo=1),
                                                                                                         "offset_range": off, "std_one": s, "max_one": m}))
                for D in (1, 2) for off in ((0.0, 0.0), (0.5, 1.5)) for s in (False, True) for m in (False, True)]
         + [Case("D=1,documented defaults (no option passed)", lambda e: ((1,), {}))],
         raises=[(ValueError, lambda D, domain_extent=1.0, cutoff=5, amplitude_range=(-1.0, 1.0), phase_range=(0.0, 2 * _math.pi), offset_range=(0.0, 0.0), std_one=False, max_one=False:
                  _rsw_bad(D, offset_range, std_one, max_one))],
         spec=lambda D, domain_extent=1.0, cutoff=5, amplitude_range=(-1.0, 1.0), phase_range=(0.0, 2 * _math.pi), offset_range=(0.0, 0.0), std_one=False, max_one=False:
         ObjSpec(R.RandomSineWaves1d, {"num_spatial_dims": D, "domain_extent": domain_extent, "cutoff": cutoff, "amplitude_range": amplitude_range, "phase_range": phase_range,
                                       "offset_range": offset_range, "std_one": std_one, "max_one": max_one}))


def _rsw_self(e, s, m, cut):
    # (the function form iterates over the drawn amplitudes in Python, so the number of waves is concrete here)
    return make_instance(R.RandomSineWaves1d, {"num_spatial_dims": 1, "indexing": "ij", "domain_extent": sym.pos_real(e, "L"), "cutoff": cut,
                                               "amplitude_range": (sym.real(e, "a0"), sym.real(e, "a1")), "phase_range": (sym.real(e, "p0"), sym.real(e, "p1")),
                                               # (representation invariant of the constructor: std_one only without an offset)
                                               "offset_range": (0.0, 0.0) if s else (sym.real(e, "o0"), sym.real(e, "o1")), "std_one": s, "max_one": m})


def _rsw_spec(self, key):
    ks = ops.key_split(key, 3)
    c = self.cutoff
    return ObjSpec(R.SineWaves1d, {"domain_extent": self.domain_extent,
                                   "amplitudes": ops.rnd_uniform(ks[0], (c,), self.amplitude_range[0], self.amplitude_range[1]),
                                   "wavenumbers": SArr((c,), lambda idx: smt.radd(idx[0], 1), "real"),
                                   "phases": ops.rnd_uniform(ks[1], (c,), self.phase_range[0], self.phase_range[1]),
                                   "offset": ops.rnd_uniform(ks[2], (), self.offset_range[0], self.offset_range[1]),
                                   "std_one": self.std_one, "max_one": self.max_one})


Contract(W + ".gen_ic_fun", props={"C18"},
         cases=[Case(f"cutoff={cut},std_one={s},max_one={m}", lambda e, s=s, m=m, cut=cut: ((_rsw_self(e, s, m, cut),), {"key": _key()}))
                for cut in (1, 3, 5) for (s, m) in ((False, False), (True, False), (False, True))],
         spec=_rsw_spec)


# --------------------------------------------------------------------------------- build_ic_set
def _abs_sampler(tag="G"):
    """ic_generator(num_points, key=...) about which only determinism in (num_points, key) is known"""
    def gen(num_points, *, key):
        from symjnp import native
        k, shape = ops.Key(("gen", tag, key.tag)), (1, num_points)
        if native.IN_REAL_CALL[0]:
            import jax.numpy as jnp
            return jnp.asarray(native.draw_native(k, shape, "N"))
        return ops._rnd(k, shape, "N")[0]
    return gen


def _ic_set_spec(ic_generator, num_points, num_samples, key):
    """docstring: sample s is drawn with the second child of the s-th split of the key chain (the first child is carried on)"""
    out, k = [], key
    for _ in range(num_samples):
        ks = ops.key_split(k, 2)
        k = ks[0]
        out.append(ic_generator(num_points, key=ks[1]))
    return values.stack(out, 0) if out else None


Contract("exponax._utils.build_ic_set", props={"C14", "C18"},
         cases=[Case(f"num_samples={S_} (scan unrolled)", lambda e, S_=S_: ((_abs_sampler(),), {"num_points": sym.integer(e, "N", lo=1), "num_samples": S_, "key": _key()},
                                                                                 {"no_native": "the abstract key of the harness cannot be carried through the real lax.scan"})) for S_ in (1, 2, 3)],
         spec=_ic_set_spec)
