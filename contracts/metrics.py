"""Contracts for exponax.metrics (C16, option guards of C20)."""
from __future__ import annotations

from specs import metrics as SM
from specs.base import T
from symjnp import smt, sym
from symjnp.contracts import Case, Contract

DIMS = (1, 2, 3)
PQ = ((1.0, 1.0), (2.0, 1.0), (2.0, 0.5), (2.0, None))
NOTE = "division by the reference norm: the reference is assumed to be non-zero in every channel (documented)"


def _field(e, D, name="s"):
    N = sym.integer(e, "N", lo=1)
    return sym.array(e, name, (N,) * D), N


def _states(e, D, with_ref=True):
    N = sym.integer(e, "N", lo=1)
    C = sym.integer(e, "C", lo=1)
    u = sym.array(e, "u", (C,) + (N,) * D)
    r = sym.array(e, "r", (C,) + (N,) * D) if with_ref else None
    return u, r, N


S = "exponax.metrics._spatial."
Contract(S + "spatial_aggregator", props={"C16"},
         cases=[Case(f"D={D},p={p},q={q},explicit={ex}",
                     lambda e, D=D, p=p, q=q, ex=ex: ((_field(e, D)[0],), dict({"domain_extent": sym.pos_real(e, "L"), "inner_exponent": p, "outer_exponent": q},
                                                                                **({"num_spatial_dims": D, "num_points": _field(e, D)[1]} if ex else {}))))
                for D in DIMS for (p, q) in PQ for ex in (False, True)],
         spec=lambda s, num_spatial_dims=None, domain_extent=1.0, num_points=None, inner_exponent=2.0, outer_exponent=None:
         SM.spatial_aggregate(s, s.ndim if num_spatial_dims is None else num_spatial_dims, domain_extent,
                              s.shape[-1] if num_points is None else num_points, inner_exponent, outer_exponent))


def _norm_cases(modes):
    out = []
    for D in DIMS:
        for mode in modes:
            for (p, q) in PQ[:3]:
                for ref in ((True, False) if mode == "absolute" else (True,)):
                    def build(e, D=D, mode=mode, p=p, q=q, ref=ref):
                        u, r, N = _states(e, D, ref)
                        return (u, r), {"mode": mode, "domain_extent": sym.pos_real(e, "L"), "inner_exponent": p, "outer_exponent": q}, {"no_div": NOTE}
                    out.append(Case(f"D={D},mode={mode},p={p},q={q},ref={'given' if ref else 'None'}", build))
        for mode in [m for m in modes if m != "absolute"]:
            out.append(Case(f"D={D},mode={mode},ref=None", lambda e, D=D, mode=mode: ((_states(e, D, False)[0], None), {"mode": mode})))
    return out


Contract(S + "spatial_norm", props={"C16", "C20"}, cases=_norm_cases(("absolute", "normalized", "symmetric")),
         raises=[(ValueError, lambda state, state_ref=None, mode="absolute", domain_extent=1.0, inner_exponent=2.0, outer_exponent=None:
                  state_ref is None and mode in ("normalized", "symmetric"))],
         spec=lambda state, state_ref=None, mode="absolute", domain_extent=1.0, inner_exponent=2.0, outer_exponent=None:
         SM.spatial_norm(state, state_ref, mode, domain_extent, inner_exponent, outer_exponent))


def _wrapper(q, name, table, fourier=False):
    mode, p, o = table[name]
    needs_ref = mode != "absolute"
    cases = []
    for D in DIMS:
        for ref in ((True,) if needs_ref else (True, False)):
            for band in ((False, True) if fourier else (False,)):
                def build(e, D=D, ref=ref, band=band):
                    u, r, N = _states(e, D, ref)
                    kw = {"domain_extent": sym.pos_real(e, "L")}
                    if band:
                        kw.update(low=sym.integer(e, "low", lo=0), high=sym.integer(e, "high", lo=0), derivative_order=1)
                    return ((u, r) if (ref or needs_ref) else (u,)), kw, {"no_div": NOTE}
                cases.append(Case(f"D={D},ref={'given' if ref else 'None'}" + (",band+derivative" if band else ""), build))
    if fourier:
        spec = lambda u_pred, u_ref=None, domain_extent=1.0, low=None, high=None, derivative_order=None: \
            SM.fourier_norm(u_pred, u_ref, mode, domain_extent, p, o, low, high, derivative_order)  # noqa: E731
    else:
        spec = lambda u_pred, u_ref=None, domain_extent=1.0: SM.spatial_norm(u_pred, u_ref, mode, domain_extent, p, o)  # noqa: E731
    Contract(q + name, props={"C16"}, cases=cases, spec=spec)


for _n in SM.SPATIAL:
    _wrapper(S, _n, SM.SPATIAL)

F = "exponax.metrics._fourier."


def _fagg_cases():
    out = []
    for D in DIMS:
        for (p, q) in PQ[:3]:
            for band in ("none", "low+high", "low", "high"):
                for do in (None, 1, 2):
                    if do == 2 and (band != "none" or p != 2.0):
                        continue
                    def build(e, D=D, p=p, q=q, band=band, do=do):
                        s, N = _field(e, D)
                        kw = {"domain_extent": sym.pos_real(e, "L"), "inner_exponent": p, "outer_exponent": q, "derivative_order": do}
                        if "low" in band:
                            kw["low"] = sym.integer(e, "low", lo=0)
                        if "high" in band:
                            kw["high"] = sym.integer(e, "high", lo=0)
                        return (s,), kw
                    out.append(Case(f"D={D},p={p},q={q},band={band},derivative_order={do}", build))
    return out


Contract(F + "fourier_aggregator", props={"C16"}, cases=_fagg_cases(),
         spec=lambda s, num_spatial_dims=None, domain_extent=1.0, num_points=None, inner_exponent=2.0, outer_exponent=None, low=None, high=None, derivative_order=None:
         SM.fourier_aggregate(s, s.ndim if num_spatial_dims is None else num_spatial_dims, domain_extent,
                              s.shape[-1] if num_points is None else num_points, inner_exponent, outer_exponent, low, high, derivative_order))


def _fnorm_cases():
    out = []
    for D in DIMS:
        for mode in ("absolute", "normalized"):
            for (p, q) in PQ[:3]:
                for ref in ((True, False) if mode == "absolute" else (True,)):
                    def build(e, D=D, mode=mode, p=p, q=q, ref=ref):
                        u, r, N = _states(e, D, ref)
                        return (u, r), {"mode": mode, "domain_extent": sym.pos_real(e, "L"), "inner_exponent": p, "outer_exponent": q,
                                        "low": sym.integer(e, "low", lo=0), "high": sym.integer(e, "high", lo=0), "derivative_order": 1}, {"no_div": NOTE}
                    out.append(Case(f"D={D},mode={mode},p={p},q={q},ref={'given' if ref else 'None'}", build))
        out.append(Case(f"D={D},mode=normalized,ref=None", lambda e, D=D: ((_states(e, D, False)[0], None), {"mode": "normalized"})))
    return out


Contract(F + "fourier_norm", props={"C16", "C20"}, cases=_fnorm_cases(),
         raises=[(ValueError, lambda state, state_ref=None, mode="absolute", **k: state_ref is None and mode == "normalized")],
         spec=lambda state, state_ref=None, mode="absolute", domain_extent=1.0, inner_exponent=2.0, outer_exponent=None, low=None, high=None, derivative_order=None:
         SM.fourier_norm(state, state_ref, mode, domain_extent, inner_exponent, outer_exponent, low, high, derivative_order))

for _n in SM.FOURIER:
    _wrapper(F, _n, SM.FOURIER, fourier=True)

# H1 = plain metric + metric of the first spectral derivative
H = "exponax.metrics._derivative."


def _h1(name, fname):
    mode, p, o = SM.FOURIER[fname]
    needs_ref = mode != "absolute"
    cases = []
    for D in DIMS:
        for ref in ((True,) if needs_ref else (True, False)):
            for band in (False, True):
                def build(e, D=D, ref=ref, band=band):
                    u, r, N = _states(e, D, ref)
                    kw = {"domain_extent": sym.pos_real(e, "L")}
                    if band:
                        kw.update(low=sym.integer(e, "low", lo=0), high=sym.integer(e, "high", lo=0))
                    return ((u, r) if (ref or needs_ref) else (u,)), kw, {"no_div": NOTE}
                cases.append(Case(f"D={D},ref={'given' if ref else 'None'},band={band}", build))

    def spec(u_pred, u_ref=None, domain_extent=1.0, low=None, high=None):
        a = SM.fourier_norm(u_pred, u_ref, mode, domain_extent, p, o, low, high, None)
        b = SM.fourier_norm(u_pred, u_ref, mode, domain_extent, p, o, low, high, 1)
        return a + b
    Contract(H + name, props={"C16"}, cases=cases, spec=spec)


for _h, _f in (("H1_MAE", "fourier_MAE"), ("H1_nMAE", "fourier_nMAE"), ("H1_MSE", "fourier_MSE"), ("H1_nMSE", "fourier_nMSE"),
               ("H1_RMSE", "fourier_RMSE"), ("H1_nRMSE", "fourier_nRMSE")):
    _h1(_h, _f)

# correlation
K = "exponax.metrics._correlation."
Contract(K + "_correlation", props={"C16"},
         cases=[Case(f"D={D}", lambda e, D=D: ((_field(e, D, "a")[0], _field(e, D, "b")[0]), {}, {"no_div": "fields with non-zero norm"})) for D in DIMS],
         spec=lambda u_pred, u_ref: SM.correlation_one(u_pred, u_ref))
Contract(K + "correlation", props={"C16"},
         cases=[Case(f"D={D}", lambda e, D=D: (_states(e, D)[:2], {}, {"no_div": "fields with non-zero norm"})) for D in DIMS],
         spec=lambda u_pred, u_ref: SM.correlation(u_pred, u_ref))


# mean over a leading batch axis of any metric (here: the real MSE / nRMSE, by their contracts)
def _mean_metric_cases():
    import exponax.metrics as _MX
    real = {n: getattr(_MX, n) for n in ("MSE", "nRMSE")}
    out = []
    for D in (1, 2):
        for name in ("MSE", "nRMSE"):
            for B in (1, 3, "B"):
                def build(e, D=D, name=name, B=B):
                    from symjnp import values as _v
                    N, C = sym.integer(e, "N", lo=1), sym.integer(e, "C", lo=1)
                    nb = sym.integer(e, "B", lo=1) if B == "B" else B
                    U, Rf = sym.array(e, "U", (nb, C) + (N,) * D), sym.array(e, "R", (nb, C) + (N,) * D)
                    return (real[name], U, Rf), {"domain_extent": sym.pos_real(e, "L")}, {"no_div": NOTE, "metric": name}
                out.append(Case(f"D={D},metric={name},batch={B}", build))
    return out


def _mean_metric_spec(metric_fn, u, r, domain_extent=1.0):
    from symjnp import values as _v
    from symjnp.values import SArr
    name = getattr(metric_fn, "__name__", "")
    name = name if name in SM.SPATIAL else next(n for n in SM.SPATIAL if n in str(getattr(metric_fn, "__qualname__", metric_fn)))
    mode, p, o = SM.SPATIAL[name]
    B = u.shape[0]
    per = SArr((B,), lambda idx: SM.spatial_norm(u[idx[0]], r[idx[0]], mode, domain_extent, p, o).at_(()), "real")
    return _v.reduce_("mean", per, 0, False)


Contract("exponax.metrics._utils.mean_metric", props={"C16"}, cases=_mean_metric_cases(), spec=_mean_metric_spec)
