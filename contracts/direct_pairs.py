"""DIRECT checks of C13 (interface equivalence): TWO real constructors are run on the same symbolic parameters -- the
concrete stepper and the generic / normalized / difficulty stepper configured with the equivalent coefficients that the
stepper overview names -- and the two constructed objects are compared field by field:

  * same integrator class; the stored propagators exp(dt L) (and half-step propagators) agree for every mode;
  * the stored ETDRK coefficient arrays agree for every mode (up to the factor dt_A / dt_B when the two steppers run on
    different time scales: a normalized stepper has dt = 1, its coefficient arrays are those of the physical stepper
    divided by dt, and its nonlinear term is dt times the physical one);
  * the two nonlinear functions, applied to the same arbitrary Fourier state, agree for every channel and mode.

ETDRKp.step_fourier is a function of exactly these fields, so the two steppers then perform the same step on every
state, for every order.  The whole call tree of both constructors (stepper __init__, BaseStepper.__init__,
build_derivative_operator, _build_linear_operator, _build_nonlinear_fun, the nonlinear-function constructors and
__call__s, the conversion utilities of stepper/generic/_utils.py) is executed under the jax.numpy shim with NO callee
replaced by its contract, except the four ETDRK coefficient constructors (the contour scan; their contracts are verified
in the same run by the closure rule).  No documented symbol or nonlinear term occurs in these obligations: a change
that alters a formula consistently on both sides of a pair is not an alarm of C13, a change on one side is.

What is taken from the documentation here is only the *pairing*: which coefficient list makes the generic stepper
the concrete one (stepper overview), alpha_j = a_j dt / L^j, beta = b dt / L (convection), b dt / L^2 (gradient norm),
c dt (polynomial), and the difficulty reductions gamma_j = alpha_j N^j 2^(j-1) D, delta = beta M N D (convection),
beta M N^2 D (gradient norm) -- i.e. the statement of C13 itself."""
from __future__ import annotations

import exponax as ex
from exponax.stepper import generic as G
from exponax.stepper import reaction as RX
from specs.base import T
from symjnp import smt, sym, values
from symjnp.contracts import Case, Contract, compare
from symjnp.values import SArr

P = {"C13"}
ETDRK_CTORS = {f"exponax.etdrk._etdrk_{k}.ETDRK{k}" for k in (1, 2, 3, 4)}
q = lambda cls: f"{cls.__module__}.{cls.__qualname__}"  # noqa: E731


def _fields(obj):
    out = {}
    for k in sorted(set(list(getattr(obj, "__dataclass_fields__", {})) + list(vars(obj)))):
        try:
            out[k] = getattr(obj, k)
        except AttributeError:
            pass
    return out


def _scaled(arr, s):
    if s is None:
        return arr
    A = values.const_arr(arr)
    st = T(s)
    if A.kind == "complex":
        return SArr(A.shape, lambda i: smt.cmul(smt.CX(st, 0), A.at_(i)), "complex")
    return SArr(A.shape, lambda i: smt.rmul(st, A.at_(i)), A.kind)


def _pair_invoke(clsA, clsB, with_state=True):
    """the function under verification: build both steppers, apply both nonlinear functions to one arbitrary state"""
    def run(argsA, kwA, argsB, kwB, uh_of, s):
        A = clsA(*argsA, **kwA)
        B = clsB(*argsB, **kwB)
        out = {"A": A, "B": B, "s": s, "nlA": None, "nlB": None}
        fa, fb = getattr(A._integrator, "_nonlinear_fun", None), getattr(B._integrator, "_nonlinear_fun", None)
        if with_state and fa is not None and fb is not None and type(A.num_points) is not int:   # (native replay: see _native_pair)
            uh = uh_of(A)
            out["nlA"], out["nlB"] = fa(uh), fb(uh)
        return out
    return run


def _pair_post(e, res, *a, **k):
    A, B, s = res["A"], res["B"], res["s"]
    e.prove("C13 (direct): both steppers have the same number of channels", A.num_channels == B.num_channels, kind="ensures")
    IA, IB = A._integrator, B._integrator
    e.prove(f"C13 (direct): both steppers use the same integrator class ({type(IA).__name__})", type(IA) is type(IB), kind="ensures")
    fa, fb = _fields(IA), _fields(IB)
    arr_a = {n for n, v in fa.items() if isinstance(v, SArr)}
    arr_b = {n for n, v in fb.items() if isinstance(v, SArr)}
    e.prove("C13 (direct): the integrators store the same set of per-mode arrays", arr_a == arr_b, kind="ensures")
    for n in sorted(arr_a & arr_b):
        if "exp" in n:
            compare(e, f"C13 (direct): stored propagator {n} of the first stepper == that of the second, every mode", fa[n], fb[n])
        else:
            compare(e, f"C13 (direct): stored coefficient {n} of the first stepper == (dt_A/dt_B) * that of the second, every mode", fa[n], _scaled(fb[n], s))
    if res["nlA"] is not None:
        compare(e, "C13 (direct): (dt_A/dt_B) * nonlinear term of the first stepper == nonlinear term of the second, on an arbitrary state, every channel and mode",
                _scaled(res["nlA"], s), res["nlB"])
    elif (getattr(IA, "_nonlinear_fun", None) is None) != (getattr(IB, "_nonlinear_fun", None) is None):
        e.prove("C13 (direct): both integrators carry a nonlinear function or neither does", False, kind="ensures")


def _native_pair(res, *nargs, **nkw):
    """native form of the pair post-condition: the two REAL steppers, built on real jax (float64) from the same concrete
    parameters, must perform the same step on a random state"""
    import jax.numpy as jnp
    import numpy as np
    A, B = res["A"], res["B"]
    if A.num_channels != B.num_channels:
        return [f"num_channels {A.num_channels} != {B.num_channels}"]
    u = jnp.asarray(np.random.default_rng(0).standard_normal((A.num_channels,) + (A.num_points,) * A.num_spatial_dims))
    a, b = np.asarray(A(u)), np.asarray(B(u))
    if not (np.isfinite(a).all() and np.isfinite(b).all()):
        return []                      # (an unstable parameter draw: nothing to compare)
    err = float(np.abs(a - b).max() / (np.abs(a).max() + 1e-300))
    return [f"{type(A).__name__}(u) and {type(B).__name__}(u) differ on a random state: relative max difference {err:.3e}"] if err > 1e-8 else []


def _uh(e, D, N):
    def of(stepper):
        C = stepper.num_channels
        return sym.array(e, "uh", (C,) + sym.wshape(D, N), "complex")
    return of


def _phys(e, D):
    return sym.pos_real(e, "L"), sym.integer(e, "N", lo=1), sym.real(e, "dt", nonzero=True)


def register_pair(name, clsA, clsB, dims, variants, orders=(2,), with_state=True, tscale=1.0):
    """variants: list of (label, fn(e, D, L, N, dt, order) -> (argsA, kwA, argsB, kwB, s))"""
    cases = []
    for D in dims:
        for order in orders:
            for label, fn in variants:
                def build(e, D=D, order=order, fn=fn):
                    L, N, dt = _phys(e, D)
                    argsA, kwA, argsB, kwB, s = fn(e, D, L, N, dt, order)
                    return (argsA, kwA, argsB, kwB, _uh(e, D, N), s), {}
                cases.append(Case(f"D={D},order={order},{label}" if order is not None else f"D={D},{label}", build))
    c = Contract(q(clsA), key=f"{q(clsA)}#C13:{name}", props=P, inline_all=True, stub_only=ETDRK_CTORS, spec=None,
                 invoke=_pair_invoke(clsA, clsB, with_state), post=_pair_post, native_post=_native_pair, cases=cases)
    c.tscale = tscale
    return c


def _o(order):
    return {} if order is None else {"order": order}


# ---------------------------------------------------------------------------------------------- specific <-> generic
def _register():
    ST = ex.stepper
    R = lambda e, n, **kw: sym.real(e, n, **kw)  # noqa: E731

    def two(mk):
        """evaluate the parameter builder once and hand the same symbols to both sides"""
        def fn(e, D, L, N, dt, order):
            kwA, kwB = mk(e, D, order)
            return (D, L, N, dt), kwA, (D, L, N, dt), kwB, None
        return fn

    register_pair("Advection~GeneralLinear", ST.Advection, G.GeneralLinearStepper, (1, 2, 3), orders=(None,), variants=[
        ("scalar velocity c ~ (0, -c)", two(lambda e, D, o: (lambda c: ({"velocity": c}, {"linear_coefficients": (0.0, -c)}))(R(e, "c"))))])
    register_pair("Diffusion~GeneralLinear", ST.Diffusion, G.GeneralLinearStepper, (1, 2, 3), orders=(None,), variants=[
        ("scalar diffusivity nu ~ (0, 0, nu)", two(lambda e, D, o: (lambda nu: ({"diffusivity": nu}, {"linear_coefficients": (0.0, 0.0, nu)}))(R(e, "nu"))))])
    register_pair("AdvectionDiffusion~GeneralLinear", ST.AdvectionDiffusion, G.GeneralLinearStepper, (1, 2, 3), orders=(None,), variants=[
        ("(c, nu) ~ (0, -c, nu)", two(lambda e, D, o: (lambda c, nu: ({"velocity": c, "diffusivity": nu}, {"linear_coefficients": (0.0, -c, nu)}))(R(e, "c"), R(e, "nu"))))])
    register_pair("Dispersion~GeneralLinear", ST.Dispersion, G.GeneralLinearStepper, (1, 2, 3), orders=(None,), variants=[
        ("xi ~ (0, 0, 0, xi)", two(lambda e, D, o: (lambda xi: ({"dispersivity": xi}, {"linear_coefficients": (0.0, 0.0, 0.0, xi)}))(R(e, "xi"))))])
    register_pair("HyperDiffusion~GeneralLinear", ST.HyperDiffusion, G.GeneralLinearStepper, (1, 2, 3), orders=(None,), variants=[
        ("mu ~ (0, 0, 0, 0, -mu)", two(lambda e, D, o: (lambda mu: ({"hyper_diffusivity": mu}, {"linear_coefficients": (0.0, 0.0, 0.0, 0.0, -mu)}))(R(e, "mu"))))])

    def flags(sc, cons):
        return {"single_channel": sc, "conservative": cons}
    FL = [(False, False), (True, False), (False, True)]
    register_pair("Burgers~GeneralConvection", ST.Burgers, G.GeneralConvectionStepper, (1, 2, 3), orders=(1, 2, 3, 4), variants=[
        (f"(nu, b) ~ ((0,0,nu), b), single_channel={sc}, conservative={cons}",
         two(lambda e, D, o, sc=sc, cons=cons: (lambda nu, b: ({"diffusivity": nu, "convection_scale": b, **flags(sc, cons), **_o(o)},
                                                               {"linear_coefficients": (0.0, 0.0, nu), "convection_scale": b, **flags(sc, cons), **_o(o)}))(R(e, "nu"), R(e, "b"))))
        for sc, cons in FL])
    register_pair("KortewegDeVries~GeneralConvection", ST.KortewegDeVries, G.GeneralConvectionStepper, (1, 2, 3), orders=(2,), variants=[
        (f"(b, nu, xi, mu) ~ ((0,0,nu,-xi,-mu), b), single_channel={sc}, conservative={cons}",
         two(lambda e, D, o, sc=sc, cons=cons: (lambda b, nu, xi, mu: (
             {"convection_scale": b, "diffusivity": nu, "dispersivity": xi, "hyper_diffusivity": mu, **flags(sc, cons), **_o(o)},
             {"linear_coefficients": (0.0, 0.0, nu, -xi, -mu), "convection_scale": b, **flags(sc, cons), **_o(o)}))(R(e, "b"), R(e, "nu"), R(e, "xi"), R(e, "mu"))))
        for sc, cons in FL[:2]])
    register_pair("KuramotoSivashinskyConservative~GeneralConvection", ST.KuramotoSivashinskyConservative, G.GeneralConvectionStepper, (1, 2, 3), orders=(2,), variants=[
        ("(b, p1, p2) ~ ((0,0,-p1,0,-p2), b, conservative=True)",
         two(lambda e, D, o: (lambda b, p1, p2: ({"convection_scale": b, "second_order_scale": p1, "fourth_order_scale": p2, **_o(o)},
                                                 {"linear_coefficients": (0.0, 0.0, -p1, 0.0, -p2), "convection_scale": b, "conservative": True, **_o(o)}))(R(e, "b"), R(e, "p1"), R(e, "p2"))))])
    register_pair("KuramotoSivashinsky~GeneralGradientNorm", ST.KuramotoSivashinsky, G.GeneralGradientNormStepper, (1, 2, 3), orders=(2,), variants=[
        ("(g, p1, p2) ~ ((0,0,-p1,0,-p2), g)",
         two(lambda e, D, o: (lambda g, p1, p2: ({"gradient_norm_scale": g, "second_order_scale": p1, "fourth_order_scale": p2, **_o(o)},
                                                 {"linear_coefficients": (0.0, 0.0, -p1, 0.0, -p2), "gradient_norm_scale": g, **_o(o)}))(R(e, "g"), R(e, "p1"), R(e, "p2"))))])
    # reaction steppers: the j = 0 term of the generic symbol is D * a_0 (documented `1 . grad^0`), so the drag / growth rate enters as r / D
    register_pair("FisherKPP~GeneralPolynomial", RX.FisherKPP, G.GeneralPolynomialStepper, (1, 2, 3), orders=(2,), variants=[
        ("(nu, r) ~ ((r/D, 0, nu), (0, 0, -r))",
         two(lambda e, D, o: (lambda nu, r: ({"diffusivity": nu, "reactivity": r, **_o(o)},
                                             {"linear_coefficients": (r / D, 0.0, nu), "polynomial_coefficients": (0.0, 0.0, -r), **_o(o)}))(R(e, "nu"), R(e, "r"))))])
    register_pair("AllenCahn~GeneralPolynomial", RX.AllenCahn, G.GeneralPolynomialStepper, (1, 2, 3), orders=(2,), variants=[
        ("(nu, c1, c3) ~ ((c1/D, 0, nu), (0, 0, 0, c3)), dealiasing 1/2",
         two(lambda e, D, o: (lambda nu, c1, c3: ({"diffusivity": nu, "first_order_coefficient": c1, "third_order_coefficient": c3, **_o(o)},
                                                  {"linear_coefficients": (c1 / D, 0.0, nu), "polynomial_coefficients": (0.0, 0.0, 0.0, c3), "dealiasing_fraction": 1 / 2, **_o(o)}))(
             R(e, "nu"), R(e, "c1"), R(e, "c3"))))])
    register_pair("NavierStokesVorticity~GeneralVorticityConvection", ST.NavierStokesVorticity, G.GeneralVorticityConvectionStepper, (2,), orders=(2,), variants=[
        ("(nu, b, drag) ~ (b, (drag/2, 0, nu), no injection)",
         two(lambda e, D, o: (lambda nu, b, lam: ({"diffusivity": nu, "vorticity_convection_scale": b, "drag": lam, **_o(o)},
                                                  {"vorticity_convection_scale": b, "linear_coefficients": (lam / 2, 0.0, nu), "injection_scale": 0.0, **_o(o)}))(R(e, "nu"), R(e, "b"), R(e, "lam"))))])
    register_pair("KolmogorovFlowVorticity~GeneralVorticityConvection", ST.KolmogorovFlowVorticity, G.GeneralVorticityConvectionStepper, (2,), orders=(2,), variants=[
        ("(nu, b, drag, k, gamma) ~ (b, (drag/2, 0, nu), k, gamma)",
         two(lambda e, D, o: (lambda nu, b, lam, k, gam: (
             {"diffusivity": nu, "convection_scale": b, "drag": lam, "injection_mode": k, "injection_scale": gam, **_o(o)},
             {"vorticity_convection_scale": b, "linear_coefficients": (lam / 2, 0.0, nu), "injection_mode": k, "injection_scale": gam, **_o(o)}))(
             R(e, "nu"), R(e, "b"), R(e, "lam"), sym.integer(e, "kinj", lo=1), R(e, "gam", nonzero=True))))])

    # ---- the three documented readings of GeneralNonlinearStepper (its docstring): quadratic polynomial with b0, single-channel
    #      convection with scale -b1, gradient norm with scale -b2
    c3 = lambda e: tuple(R(e, f"a{j}") for j in range(3))  # noqa: E731
    c5 = lambda e: tuple(R(e, f"a{j}") for j in range(5))  # noqa: E731
    register_pair("GeneralNonlinear(b0,0,0)~GeneralPolynomial", G.GeneralNonlinearStepper, G.GeneralPolynomialStepper, (1, 2, 3), orders=(2,), variants=[
        ("(a, (b0, 0, 0)) ~ (a, polynomial (0, 0, b0))",
         two(lambda e, D, o: (lambda a, b0: ({"linear_coefficients": a, "nonlinear_coefficients": (b0, 0.0, 0.0), **_o(o)},
                                             {"linear_coefficients": a, "polynomial_coefficients": (0.0, 0.0, b0), **_o(o)}))(c3(e), R(e, "b0"))))])
    register_pair("GeneralNonlinear(0,b1,0)~GeneralConvection", G.GeneralNonlinearStepper, G.GeneralConvectionStepper, (1, 2, 3), orders=(2,), variants=[
        ("(a, (0, b1, 0)) ~ (a, convection_scale = -b1, single_channel=True, conservative=True: the documented form b1 1/2 (1 . grad)(u^2))",
         two(lambda e, D, o: (lambda a, b1: ({"linear_coefficients": a, "nonlinear_coefficients": (0.0, b1, 0.0), **_o(o)},
                                             {"linear_coefficients": a, "convection_scale": -b1, "single_channel": True, "conservative": True, **_o(o)}))(c3(e), R(e, "b1"))))])
    register_pair("GeneralNonlinear(0,0,b2)~GeneralGradientNorm", G.GeneralNonlinearStepper, G.GeneralGradientNormStepper, (1, 2, 3), orders=(2,), variants=[
        ("(a, (0, 0, b2)) ~ (a, gradient_norm_scale = -b2)",
         two(lambda e, D, o: (lambda a, b2: ({"linear_coefficients": a, "nonlinear_coefficients": (0.0, 0.0, b2), **_o(o)},
                                             {"linear_coefficients": a, "gradient_norm_scale": -b2, **_o(o)}))(c5(e), R(e, "b2"))))])


_register()


# ------------------------------------------------------------------------------ general <-> normalized <-> difficulty
def _alpha(a, L, dt):
    """alpha_j = a_j dt / L^j (statement of C13)"""
    return tuple(aj * dt / L ** j if j else aj * dt for j, aj in enumerate(a))


def _from_difficulty(g, D, N):
    """alpha_0 = gamma_0, alpha_j = gamma_j / (N^j 2^(j-1) D)  (documented reduction, read backwards)"""
    return tuple(gj if j == 0 else gj / (N ** j * 2 ** (j - 1) * D) for j, gj in enumerate(g))


def _register_scaled():
    R = lambda e, n, **kw: sym.real(e, n, **kw)  # noqa: E731
    coefs = lambda e, n, nm="a": tuple(R(e, f"{nm}{j}") for j in range(n))  # noqa: E731

    def gen_norm(extraA, extraB):
        """physical generic stepper (L, dt, a, ...) vs normalized stepper (alpha, ...): s = dt_A / dt_B = dt"""
        def mk(n):
            def fn(e, D, L, N, dt, order):
                a = coefs(e, n)
                kwA = {"linear_coefficients": a, **extraA(e, D, L, N, dt), **_o(order)}
                kwB = {"normalized_linear_coefficients": _alpha(a, L, dt), **extraB(e, D, L, N, dt), **_o(order)}
                return (D, L, N, dt), kwA, (D, N), kwB, dt
            return fn
        return mk

    def diff_norm(keyA, extraA, extraB):
        """difficulty stepper (gamma, delta) vs normalized stepper (alpha, beta): both run with dt = 1"""
        def mk(n):
            def fn(e, D, L, N, dt, order):
                g = coefs(e, n, "g")
                kwA = {keyA: g, **extraA(e, D, N), **_o(order)}
                kwB = {"normalized_linear_coefficients": _from_difficulty(g, D, N), **extraB(e, D, N), **_o(order)}
                return (D, N), kwA, (D, N), kwB, None
            return fn
        return mk

    def once(e, name, **kw):
        """the same symbol on both sides of a pair (harness symbols are identified by name)"""
        return R(e, name, **kw)

    none = lambda *a: {}  # noqa: E731
    # ---- linear
    register_pair("GeneralLinear~NormalizedLinear", G.GeneralLinearStepper, G.NormalizedLinearStepper, (1, 2, 3), orders=(None,),
                  variants=[(f"{n} coefficients, alpha_j = a_j dt / L^j", gen_norm(none, none)(n)) for n in (1, 2, 3, 5)])
    register_pair("DifficultyLinear~NormalizedLinear", G.DifficultyLinearStepper, G.NormalizedLinearStepper, (1, 2, 3), orders=(None,),
                  variants=[(f"{n} difficulties, alpha_j = gamma_j / (N^j 2^(j-1) D)", diff_norm("linear_difficulties", none, none)(n)) for n in (1, 2, 3, 5)])
    # ---- convection: beta = b dt / L ; delta = beta M N D
    for sc, cons in ((False, False), (True, False), (False, True)):
        fl = {"single_channel": sc, "conservative": cons}
        register_pair(f"GeneralConvection~NormalizedConvection[sc={sc},cons={cons}]", G.GeneralConvectionStepper, G.NormalizedConvectionStepper, (1, 2, 3), orders=(2,) if (sc or cons) else (1, 2, 3, 4),
                      variants=[("3 coefficients, beta = b dt / L",
                                 gen_norm(lambda e, D, L, N, dt, fl=fl: {"convection_scale": once(e, "b"), **fl},
                                          lambda e, D, L, N, dt, fl=fl: {"normalized_convection_scale": once(e, "b") * dt / L, **fl})(3))])
        register_pair(f"DifficultyConvection~NormalizedConvection[sc={sc},cons={cons}]", G.DifficultyConvectionStepper, G.NormalizedConvectionStepper, (1, 2, 3), orders=(2,),
                      variants=[("3 difficulties, beta = delta / (M N D)",
                                 diff_norm("linear_difficulties",
                                           lambda e, D, N, fl=fl: {"convection_difficulty": once(e, "dl"), "maximum_absolute": once(e, "Mabs", lo=0, lo_strict=True), **fl},
                                           lambda e, D, N, fl=fl: {"normalized_convection_scale": once(e, "dl") / (once(e, "Mabs", lo=0, lo_strict=True) * N * D), **fl})(3))])
    # ---- gradient norm: beta = b dt / L^2 ; delta = beta M N^2 D
    register_pair("GeneralGradientNorm~NormalizedGradientNorm", G.GeneralGradientNormStepper, G.NormalizedGradientNormStepper, (1, 2, 3), orders=(2,),
                  variants=[("5 coefficients, beta = b dt / L^2",
                             gen_norm(lambda e, D, L, N, dt: {"gradient_norm_scale": once(e, "b")},
                                      lambda e, D, L, N, dt: {"normalized_gradient_norm_scale": once(e, "b") * dt / L ** 2})(5))])
    register_pair("DifficultyGradientNorm~NormalizedGradientNorm", G.DifficultyGradientNormStepper, G.NormalizedGradientNormStepper, (1, 2, 3), orders=(2,),
                  variants=[("5 difficulties, beta = delta / (M N^2 D)",
                             diff_norm("linear_difficulties",
                                       lambda e, D, N: {"gradient_norm_difficulty": once(e, "dl"), "maximum_absolute": once(e, "Mabs", lo=0, lo_strict=True)},
                                       lambda e, D, N: {"normalized_gradient_norm_scale": once(e, "dl") / (once(e, "Mabs", lo=0, lo_strict=True) * N ** 2 * D)})(5))])
    # ---- polynomial: normalized scale = c dt ; difficulty = normalized
    pol = lambda e: tuple(once(e, f"p{j}") for j in range(4))  # noqa: E731
    register_pair("GeneralPolynomial~NormalizedPolynomial", G.GeneralPolynomialStepper, G.NormalizedPolynomialStepper, (1, 2, 3), orders=(2,),
                  variants=[("3 coefficients, 4 polynomial scales, normalized scale = c dt",
                             gen_norm(lambda e, D, L, N, dt: {"polynomial_coefficients": pol(e)},
                                      lambda e, D, L, N, dt: {"normalized_polynomial_coefficients": tuple(c * dt for c in pol(e))})(3))])
    register_pair("DifficultyPolynomial~NormalizedPolynomial", G.DifficultyPolynomialStepper, G.NormalizedPolynomialStepper, (1, 2, 3), orders=(2,),
                  variants=[("3 difficulties, polynomial difficulties = normalized scales",
                             diff_norm("linear_difficulties", lambda e, D, N: {"polynomial_difficulties": pol(e)},
                                       lambda e, D, N: {"normalized_polynomial_coefficients": pol(e)})(3))])
    # ---- general nonlinear: (b0 dt, b1 dt / L, b2 dt / L^2) ; (delta_0, delta_1 / (M N D), delta_2 / (M N^2 D))
    nl = lambda e: tuple(once(e, f"b{j}") for j in range(3))  # noqa: E731
    register_pair("GeneralNonlinear~NormalizedNonlinear", G.GeneralNonlinearStepper, G.NormalizedNonlinearStepper, (1, 2, 3), orders=(2,),
                  variants=[("3 coefficients, (b0 dt, b1 dt / L, b2 dt / L^2)",
                             gen_norm(lambda e, D, L, N, dt: {"nonlinear_coefficients": nl(e)},
                                      lambda e, D, L, N, dt: {"normalized_nonlinear_coefficients": (nl(e)[0] * dt, nl(e)[1] * dt / L, nl(e)[2] * dt / L ** 2)})(3))])
    register_pair("DifficultyNonlinear~NormalizedNonlinear", G.DifficultyNonlinearStepper, G.NormalizedNonlinearStepper, (1, 2, 3), orders=(2,),
                  variants=[("3 difficulties, (d0, d1 / (M N D), d2 / (M N^2 D))",
                             diff_norm("linear_difficulties",
                                       lambda e, D, N: {"nonlinear_difficulties": nl(e), "maximum_absolute": once(e, "Mabs", lo=0, lo_strict=True)},
                                       lambda e, D, N: (lambda M: {"normalized_nonlinear_coefficients": (nl(e)[0], nl(e)[1] / (M * N * D), nl(e)[2] / (M * N ** 2 * D))})(once(e, "Mabs", lo=0, lo_strict=True)))(3))])


_register_scaled()
