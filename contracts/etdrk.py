"""Contracts for exponax.etdrk (C02; order 0 is the propagator of C01/C11)."""
from __future__ import annotations

import z3

from specs import etdrk as SE
from specs.base import T, wshape
from symjnp import engine, smt, sym, values
from symjnp.contracts import Assumed, Case, Contract, ObjSpec, Opaque, compare, make_instance, fresh_index
from symjnp.smt import CX
from symjnp.values import SArr

import exponax.etdrk as ET
from exponax.etdrk import ETDRK0, ETDRK1, ETDRK2, ETDRK3, ETDRK4

CLS = {0: ETDRK0, 1: ETDRK1, 2: ETDRK2, 3: ETDRK3, 4: ETDRK4}
MODQ = {k: f"exponax.etdrk._etdrk_{k}.ETDRK{k}" for k in CLS}
P_ALL = {"C01", "C02", "C08", "C09", "C10", "C11", "C12", "C13"}

# ---------------------------------------------------------------------------- roots_of_unity
Contract("exponax.etdrk._utils.roots_of_unity", props=P_ALL - {"C01", "C11"},   # (every property that rests on the ETDRK1-4 coefficients)
         cases=[Case("M symbolic", lambda e: ((sym.integer(e, "M", lo=1),), {}))],
         requires=lambda M: [("M >= 1", smt.rge(T(M), 1))],
         spec=lambda M: SE.roots_of_unity(M))


# ------------------------------------------------------------------------------- constructors
def _lin_op(e, D, off_circle_r=None, dt=None, M=None, jref=None):
    """arbitrary complex linear operator of shape (E, *wavenumber_shape).  For the contour evaluation the
    precondition is `forall idx, j < M: dt*L[idx] + r*rho_j(M) != 0` (no contour node sits at the origin of the
    closed forms; implied by |dt*L| != r).  The instance for the scan index in use (jref['j']) is attached to every
    element that is read."""
    N = sym.integer(e, "N", lo=1)
    E = sym.integer(e, "E", lo=1)
    con = None
    if off_circle_r is not None:
        r, dtt = T(off_circle_r), T(dt)

        def con(el):
            j = jref.get("j")
            if j is None:
                return True
            w = smt.cadd(smt.cmul(CX(r, 0), SE.root(j, M)), smt.cmul(el, CX(dtt, 0)))
            return smt.z(smt.bor(smt.rne(w.re, 0), smt.rne(w.im, 0)))
    return sym.array(e, "Lop", (E,) + wshape(D, N), "complex", constraint=con)


def _acc_rule(order, dt, L, r, M, jref):
    """accumulation rule for the coefficient scan: invariant acc_j = S_g(z, r, M, j) per accumulated closed form"""
    names = SE.SCAN_ORDER[order]

    def inv(j, unfold=False):
        out = []
        for g in names:
            out.append(SArr(L.shape, (lambda i, g=g: SE.partial_sum(g, smt.cmul(CX(T(dt), 0), L.at_(i)), r, M, j, unfold=unfold)), "complex"))
        return out[0] if len(out) == 1 else tuple(out)

    def rule(f, init, xs, n):
        e = engine.cur()
        e.prove("scan length == num_circle_points", smt.req(T(n), T(M)), kind="invariant")
        compare(e, "scan invariant holds initially (acc == 0)", init, inv(0))
        j = z3.Int(e.fresh_name("sj"))
        e.pc.append(z3.And(j >= 0, j < smt.z(T(M))))
        jref["j"] = j
        x = values.getitem(values.const_arr(xs), j)
        out, y = f(inv(j), x)
        compare(e, "scan invariant preserved: body(inv(j), root_j) == inv(j+1)", out, inv(z3.simplify(j + 1), unfold=True))
        e.prove("scan emits nothing", y is None, kind="invariant")
        return inv(T(M)), None
    return rule


def _ctor_cases(order):
    out = []
    for D in (1, 2, 3):
        def build(e, D=D):
            dt = sym.real(e, "dt")
            if order == 0:
                return (dt, _lin_op(e, D)), {}
            M = sym.integer(e, "M", lo=1)
            r = sym.pos_real(e, "r")
            jref = {"j": None}
            L = _lin_op(e, D, off_circle_r=r, dt=dt, M=M, jref=jref)
            nf = sym.AbstractOp("NL")
            return (dt, L, nf), {"num_circle_points": M, "circle_radius": r}, {"scan_rules": [_acc_rule(order, dt, L, r, M, jref)]}
        out.append(Case(f"D={D}", build))
    return out


def _ctor_spec(order):
    if order == 0:
        return lambda dt, linear_operator: ObjSpec(ETDRK0, SE.fields(0, dt, linear_operator, None, None, None, Opaque))
    return lambda dt, linear_operator, nonlinear_fun, num_circle_points=16, circle_radius=1.0: \
        ObjSpec(CLS[order], SE.fields(order, dt, linear_operator, nonlinear_fun, num_circle_points, circle_radius, Opaque))


def _ctor_requires(order):
    if order == 0:
        return None
    return lambda dt, linear_operator, nonlinear_fun, num_circle_points=16, circle_radius=1.0: [
        ("num_circle_points >= 1", smt.rge(T(num_circle_points), 1)),
        ("circle_radius > 0", smt.rgt(T(circle_radius), 0)),
        ("no contour node dt*L[idx] + r*rho_j is zero (implied by |dt*L| != circle_radius)", Assumed()),
    ]


for _k in CLS:
    Contract(MODQ[_k], props=P_ALL if _k else P_ALL | {"C14"}, cases=_ctor_cases(_k), spec=_ctor_spec(_k), requires=_ctor_requires(_k))


# ------------------------------------------------------------------------------ step_fourier
def _self(e, order, D, same_channels):
    """an integrator object satisfying the representation invariant (all per-mode arrays arbitrary, shape (E, ...))"""
    N = sym.integer(e, "N", lo=1)
    C = sym.integer(e, "C", lo=1)
    E = C if same_channels else 1
    shp = (E,) + wshape(D, N)
    f = {"dt": sym.real(e, "dt"), "_exp_term": sym.array(e, "Eterm", shp, "complex")}
    if order >= 1:
        f["_nonlinear_fun"] = sym.AbstractOp("NL")
        for name in SE.COEFS[order]:
            f[name] = sym.array(e, name, shp, "complex")
    if order >= 3:
        f["_half_exp_term"] = sym.array(e, "Ehalf", shp, "complex")
    u = sym.array(e, "uh", (C,) + wshape(D, N), "complex")
    return make_instance(CLS[order], f), u


def _step_cases(order):
    out = []
    for D in (1, 2, 3):
        for same in (False, True):
            out.append(Case(f"D={D},{'E=C' if same else 'E=1'}", lambda e, D=D, same=same: (_self(e, order, D, same), {})))
    return out


for _k in CLS:
    Contract(MODQ[_k] + ".step_fourier", props=P_ALL | {"C14"}, cases=_step_cases(_k),
             spec=(lambda k: (lambda self, u_hat: SE.step(k, self, u_hat)))(_k))
