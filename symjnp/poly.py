"""Ring normaliser over z3 arithmetic terms.

poly(t) maps a z3 Real/Int term to a dict {monomial: Fraction}, monomial = tuple of (atom_id, power)
sorted by atom id; atoms are the maximal non-ring subterms (constants, UF applications, ite, div by
non-numeral, mod ...).  Used (a) to split the argument of a linear operator into
index-free coefficient x index-dependent core, (b) as a pre-normaliser for equalities.
"""
from __future__ import annotations

from fractions import Fraction

import z3

ATOMS: dict[int, z3.ExprRef] = {}
_CACHE: dict[int, dict] = {}
_KEEP = []  # keep z3 refs alive so that ids stay unique
MAX_TERMS = 20000


class PolyTooLarge(Exception):
    pass


def _atom(e):
    i = e.get_id()
    if i not in ATOMS:
        ATOMS[i] = e
    return {((i, 1),): Fraction(1)}


def _const(c):
    return {(): Fraction(c)} if c != 0 else {}


def p_add(a, b):
    r = dict(a)
    for m, c in b.items():
        v = r.get(m, 0) + c
        if v == 0:
            r.pop(m, None)
        else:
            r[m] = v
    return r


def p_scale(a, s):
    if s == 0:
        return {}
    return {m: c * s for m, c in a.items()}


def _mono_mul(m1, m2):
    d = dict(m1)
    for a, p in m2:
        d[a] = d.get(a, 0) + p
    return tuple(sorted((a, p) for a, p in d.items() if p != 0))


SQRT_CONST: dict[int, Fraction] = {}  # atom id of SQRT(numeral c) -> c   (SQRT(c)^2 = c is applied by the normaliser)


INDICATORS: set[int] = set()  # atom ids of 0/1 indicator atoms: [c]^n = [c] for n >= 1


def _reduce_sqrt(m, c):
    if not SQRT_CONST and not INDICATORS:
        return m, c
    out = []
    for a, p in m:
        if p > 1 and a in INDICATORS:
            p = 1
        k = SQRT_CONST.get(a)
        if k is not None:
            while p >= 2:
                p -= 2
                c = c * k
            while p <= -2:
                p += 2
                c = c / k
            if p == -1:       # 1/sqrt(k) = sqrt(k)/k
                p = 1
                c = c / k
        if p != 0:
            out.append((a, p))
    return tuple(out), c


def p_mul(a, b):
    if len(a) * len(b) > MAX_TERMS:
        raise PolyTooLarge()
    r = {}
    for m1, c1 in a.items():
        for m2, c2 in b.items():
            m = _mono_mul(m1, m2)
            m, cc = _reduce_sqrt(m, c1 * c2)
            v = r.get(m, 0) + cc
            if v == 0:
                r.pop(m, None)
            else:
                r[m] = v
    return _reduce_sin(r)


def _p_mul_unused(a, b):
    r = {}
    for m1, c1 in a.items():
        for m2, c2 in b.items():
            m = _mono_mul(m1, m2)
            v = r.get(m, 0) + c1 * c2
            if v == 0:
                r.pop(m, None)
            else:
                r[m] = v
    return r


def p_pow(a, n):
    r = _const(1)
    for _ in range(n):
        r = p_mul(r, a)
    return r


TRIG_EXPAND = [False]  # expand ER/COS/SIN of sums by the addition theorems (exponential in the number of summands;
#                        switched on by the lemmas that need it)
SIN_TO_COS: dict[int, int] = {}   # atom id of SIN(a) -> atom id of COS(a)   (SIN^2 = 1 - COS^2 is applied)
_DECLS = {}


class trig_expand:
    """context: addition theorems of ER/COS/SIN are applied as rewrite rules inside (normal forms are not cached across
    the switch)"""

    def __enter__(self):
        self.prev = TRIG_EXPAND[0]
        TRIG_EXPAND[0] = True
        _CACHE.clear()

    def __exit__(self, *a):
        TRIG_EXPAND[0] = self.prev
        _CACHE.clear()


def _trans_atom(name, p):
    """atom for ER/COS/SIN of the single-monomial, positive-coefficient argument p"""
    from . import smt as _smt
    f = {"ER": _smt.ER, "COS": _smt.COS, "SIN": _smt.SIN}[name]
    t = f(rebuild(p))
    _KEEP.append(t)
    r = _atom(t)
    if name == "SIN":
        c = _smt.COS(rebuild(p))
        _KEEP.append(c)
        _atom(c)
        SIN_TO_COS[t.get_id()] = c.get_id()
    return r


def _trans(decl, name, p):
    """exponential-polynomial normal form: ER / COS / SIN of a sum are expanded by the addition theorems, negative
    arguments by parity (ER(-x) = ER(x)^-1), so that every transcendental atom has a single-monomial argument with a
    positive coefficient (axioms A1 used as rewrite rules)"""
    items = sorted(p.items())
    if not items:
        return _const(0) if name == "SIN" else _const(1)
    if len(items) > 1 and not TRIG_EXPAND[0]:
        # default: canonical argument + parity only (sign-normalised on the first monomial); no addition theorems
        if items[0][1] < 0:
            return _trans_neg(name, p_scale(p, -1))
        return _trans_atom(name, p)
    if len(items) == 1:
        (m, c), = items
        if m == ():
            # numeric argument: keep as an atom (COS(0)/SIN(0)/ER(0) were folded above)
            return _trans_atom(name, p) if c > 0 else _trans_neg(name, {m: -c})
        if c < 0:
            return _trans_neg(name, {m: -c})
        if TRIG_EXPAND[0] and c.denominator == 1 and 2 <= c <= 6:
            # integer multiple: n*x = x + (n-1)*x, expanded by the addition theorems
            first, rest = {m: Fraction(1)}, {m: c - 1}
            if name == "ER":
                return p_mul(_trans(decl, "ER", first), _trans(decl, "ER", rest))
            c1, s1 = _trans(decl, "COS", first), _trans(decl, "SIN", first)
            c2, s2 = _trans(decl, "COS", rest), _trans(decl, "SIN", rest)
            if name == "COS":
                return p_add(p_mul(c1, c2), p_scale(p_mul(s1, s2), -1))
            return p_add(p_mul(s1, c2), p_mul(c1, s2))
        return _trans_atom(name, p)
    first = {items[0][0]: items[0][1]}
    rest = dict(items[1:])
    if name == "ER":
        return p_mul(_trans(decl, "ER", first), _trans(decl, "ER", rest))
    c1, s1 = _trans(decl, "COS", first), _trans(decl, "SIN", first)
    c2, s2 = _trans(decl, "COS", rest), _trans(decl, "SIN", rest)
    if name == "COS":
        return p_add(p_mul(c1, c2), p_scale(p_mul(s1, s2), -1))
    return p_add(p_mul(s1, c2), p_mul(c1, s2))


def _trans_neg(name, q):
    """name(-q) in terms of name(q), q with positive coefficient"""
    a = _trans_atom(name, q)
    if name == "COS":
        return a
    if name == "SIN":
        return p_scale(a, -1)
    ((m, c),) = a.items()
    return {tuple((x, -pw) for x, pw in m): 1 / c}


def _reduce_sin(r):
    """apply SIN(a)^2 -> 1 - COS(a)^2 until no SIN atom has a power >= 2"""
    if not SIN_TO_COS:
        return r
    changed = True
    while changed:
        changed = False
        for m in list(r):
            hit = None
            for a, pw in m:
                if pw >= 2 and a in SIN_TO_COS:
                    hit = (a, pw)
                    break
            if hit is None:
                continue
            c = r.pop(m)
            a, pw = hit
            base = tuple((x, (p if x != a else p - 2)) for x, p in m)
            base = tuple((x, p) for x, p in base if p != 0)
            m2 = _mono_mul(base, ((SIN_TO_COS[a], 2),))
            for mm, cc in ((base, c), (m2, -c)):
                v = r.get(mm, 0) + cc
                if v == 0:
                    r.pop(mm, None)
                else:
                    r[mm] = v
            changed = True
            break
    return r


def poly(e) -> dict:
    if isinstance(e, (int, Fraction)):
        return _const(e)
    i = e.get_id()
    if i in _CACHE:
        return _CACHE[i]
    _KEEP.append(e)
    r = _poly(e)
    _CACHE[i] = r
    return r


_COND_CACHE = {}
_CMP = {z3.Z3_OP_LE: lambda a: a <= 0, z3.Z3_OP_LT: lambda a: a < 0, z3.Z3_OP_GE: lambda a: a >= 0, z3.Z3_OP_GT: lambda a: a > 0}


def canon_cond(c):
    """boolean guard in canonical form: comparisons become `normal_form(lhs - rhs) OP 0`, connectives are mapped
    recursively (so that `k <= low - 1` and `k <= -1 + low` are the same atom)"""
    i = c.get_id()
    if i in _COND_CACHE:
        return _COND_CACHE[i]
    r = c
    try:
        if z3.is_app(c):
            k = c.decl().kind()
            ch = c.children()
            if k in (z3.Z3_OP_AND, z3.Z3_OP_OR):
                parts = [canon_cond(x) for x in ch]
                r = z3.And(*parts) if k == z3.Z3_OP_AND else z3.Or(*parts)
            elif k == z3.Z3_OP_NOT:
                r = z3.Not(canon_cond(ch[0]))
            elif k in _CMP and z3.is_arith(ch[0]):
                d = p_add(poly(ch[0]), p_scale(poly(ch[1]), -1))
                r = _CMP[k](rebuild(d))
            elif k in (z3.Z3_OP_EQ, z3.Z3_OP_DISTINCT) and len(ch) == 2 and z3.is_arith(ch[0]):
                d = p_add(poly(ch[0]), p_scale(poly(ch[1]), -1))
                # sign-normalise: leading coefficient positive
                if d:
                    lead = d[sorted(d, key=lambda mm: (_mono_key(mm), mm))[0]]
                    if lead < 0:
                        d = p_scale(d, -1)
                t = rebuild(d)
                r = (t == 0) if k == z3.Z3_OP_EQ else (t != 0)
    except PolyTooLarge:
        r = c
    _COND_CACHE[i] = r
    _KEEP.append(c)
    _KEEP.append(r)
    return r


def _poly(e):
    if z3.is_int_value(e):
        return _const(e.as_long())
    if z3.is_rational_value(e):
        return _const(Fraction(e.numerator_as_long(), e.denominator_as_long()))
    if not z3.is_app(e):
        return _atom(e)
    k = e.decl().kind()
    ch = e.children()
    if k == z3.Z3_OP_ADD:
        r = {}
        for c in ch:
            r = p_add(r, poly(c))
        return r
    if k == z3.Z3_OP_SUB:
        r = poly(ch[0])
        for c in ch[1:]:
            r = p_add(r, p_scale(poly(c), -1))
        return r
    if k == z3.Z3_OP_UMINUS:
        return p_scale(poly(ch[0]), -1)
    if k == z3.Z3_OP_MUL:
        r = _const(1)
        for c in ch:
            r = p_mul(r, poly(c))
        return r
    if k == z3.Z3_OP_TO_REAL:
        return poly(ch[0])
    if k == z3.Z3_OP_POWER:
        if z3.is_int_value(ch[1]) and 0 <= ch[1].as_long() <= 12:
            return p_pow(poly(ch[0]), ch[1].as_long())
        return _atom(e)
    if k == z3.Z3_OP_ITE and e.sort() != z3.BoolSort():
        # ite(c, a, b) = b + [c] * (a - b) with the indicator atom [c] = ite(c, 1, 0): masks become multiplicative
        # only mask-like ites (one branch identically 0) become multiplicative indicators; a general ite stays an atom
        # whose branches are put in normal form (so that equal branches written differently give the same atom)
        pa, pb = poly(ch[1]), poly(ch[2])
        cond = canon_cond(ch[0])
        if not pb:
            ind = z3.If(cond, z3.RealVal(1), z3.RealVal(0))
            INDICATORS.add(ind.get_id())
            _KEEP.append(ind)
            return p_mul(_atom(ind), pa)
        if not pa:
            ind = z3.If(cond, z3.RealVal(0), z3.RealVal(1))
            INDICATORS.add(ind.get_id())
            _KEEP.append(ind)
            return p_mul(_atom(ind), pb)
        if e.sort() == z3.RealSort():
            try:
                na, nb = rebuild(pa), rebuild(pb)
                if na.get_id() != ch[1].get_id() or nb.get_id() != ch[2].get_id() or cond.get_id() != ch[0].get_id():
                    e2 = z3.If(cond, na, nb)
                    _KEEP.append(e2)
                    return _atom(e2)
            except PolyTooLarge:
                pass
        elif cond.get_id() != ch[0].get_id():
            e2 = z3.If(cond, ch[1], ch[2])
            _KEEP.append(e2)
            return _atom(e2)
        return _atom(e)
    if k == z3.Z3_OP_DIV:
        den = poly(ch[1])
        if len(den) == 1 and () in den:
            return p_scale(poly(ch[0]), 1 / den[()])
        # single monomial denominator -> negative powers; else reciprocal atom of the normalised denominator
        if len(den) == 1:
            (m, c), = den.items()
            inv = {tuple((a, -p) for a, p in m): 1 / c}
            return p_mul(poly(ch[0]), inv)
        # reciprocal atom keyed by the NORMALISED primitive denominator, so that equal polynomials share it
        lead = den[min(den)]
        prim = p_scale(den, 1 / lead)
        rec = z3.RealVal(1) / rebuild(prim)
        RECIPROCALS[rec.get_id()] = rec
        return p_scale(p_mul(poly(ch[0]), _atom(rec)), 1 / lead)
    if k == z3.Z3_OP_UNINTERPRETED and len(ch) == 1 and e.decl().name() in ("ER", "COS", "SIN"):
        try:
            return _trans(e.decl(), e.decl().name(), poly(ch[0]))
        except PolyTooLarge:
            return _atom(e)
    if k == z3.Z3_OP_UNINTERPRETED and len(ch) == 1 and e.decl().name() == "SQRT" and (z3.is_rational_value(ch[0]) or z3.is_int_value(ch[0])):
        r = _atom(e)
        cv = ch[0]
        SQRT_CONST[e.get_id()] = Fraction(cv.as_long()) if z3.is_int_value(cv) else Fraction(cv.numerator_as_long(), cv.denominator_as_long())
        return r
    if k == z3.Z3_OP_UNINTERPRETED and ch:
        # canonicalise real-sorted arguments of uninterpreted applications (ER, COS, SIN, SQRT, operator symbols ...)
        # so that equal arguments written differently yield the same atom
        new = []
        changed = False
        for c in ch:
            if c.sort() == z3.RealSort() and not (z3.is_rational_value(c) or z3.is_const(c)):
                try:
                    n = rebuild(poly(c))
                except PolyTooLarge:
                    n = c
                if n.get_id() != c.get_id():
                    changed = True
                new.append(n)
            else:
                new.append(c)
        if changed:
            e2 = e.decl()(*new)
            _KEEP.append(e2)
            return _atom(e2)
    return _atom(e)


RECIPROCALS: dict[int, z3.ExprRef] = {}


def cancellation_side_conditions(terms):
    """the denominators of all divisions inside the terms (outside ite branches they must be non-zero for the ring
    identities x * x^-1 = 1 applied by the normaliser to be valid)"""
    out, seen, stack = {}, set(), [t for t in terms if isinstance(t, z3.ExprRef)]
    while stack:
        x = stack.pop()
        i = x.get_id()
        if i in seen:
            continue
        seen.add(i)
        if z3.is_app(x):
            if x.decl().kind() == z3.Z3_OP_DIV:
                d = x.arg(1)
                if not (z3.is_int_value(d) or z3.is_rational_value(d)):
                    out[d.get_id()] = d
            stack.extend(x.children())
    return list(out.values())


def equal_by_normalisation(lhs, rhs):
    """(True, side_conditions) if lhs - rhs normalises to 0 as a ring identity (side conditions: atoms that must be
    non-zero for the cancellations that were applied), else (False, [])"""
    try:
        pl, pr = poly(lhs), poly(rhs)
    except PolyTooLarge:
        return False, []
    d = p_add(pl, p_scale(pr, -1))
    if d:
        return False, []
    return True, cancellation_side_conditions([lhs, rhs])


def contains_any(e, var_ids, _cache={}):
    """does the z3 term mention one of the constants whose ids are in var_ids (frozenset)?"""
    key = (e.get_id(), var_ids)
    if key in _cache:
        return _cache[key]
    stack, seen, res = [e], set(), False
    while stack:
        x = stack.pop()
        i = x.get_id()
        if i in seen:
            continue
        seen.add(i)
        if i in var_ids:
            res = True
            break
        if z3.is_app(x):
            stack.extend(x.children())
    _cache[key] = res
    _KEEP.append(e)
    return res


def _real(e):
    return z3.ToReal(e) if e.sort() == z3.IntSort() else e


_SKEY = {}
_GEN = {}


import re as _re

_IXLIKE = _re.compile(r"^(IX!|BV!|vb!|sj!)")


def is_indexlike(name):
    """index-like constants: fresh element indices (IX!), operator bound variables (BV!), vmap / scan indices"""
    return bool(_IXLIKE.match(name))


def structural_key(e):
    """name-independent ordering key of an atom: its s-expression with every free 0-ary constant replaced by one
    generic constant per sort (bound index variables, whose names contain '!', keep their names)"""
    i = e.get_id()
    if i in _SKEY:
        return _SKEY[i]
    subs, seen, stack = [], set(), [e]
    while stack:
        x = stack.pop()
        xi = x.get_id()
        if xi in seen:
            continue
        seen.add(xi)
        if z3.is_app(x):
            if x.num_args() == 0:
                if x.decl().kind() == z3.Z3_OP_UNINTERPRETED:
                    nm = x.decl().name()
                    if nm.startswith("BV!"):
                        # bound index variable: only its position matters (not the family nesting depth)
                        pos = nm.rsplit("!", 1)[1]
                        if ("bv", pos) not in _GEN:
                            _GEN[("bv", pos)] = z3.Int(f"?bv{pos}")
                        subs.append((x, _GEN[("bv", pos)]))
                        continue
                    if not is_indexlike(nm):
                        continue  # named harness symbols keep their names (they are the same in code and spec)
                    sn = x.sort().name()
                    if sn not in _GEN:
                        _GEN[sn] = z3.Const(f"?{sn}", x.sort())
                    subs.append((x, _GEN[sn]))
            else:
                stack.extend(x.children())
    k = (z3.substitute(e, *subs) if subs else e).sexpr()
    _SKEY[i] = k
    _KEEP.append(e)
    return k


def rebuild_mono(m, canonical=False):
    """monomial -> z3 Real term (None for the empty monomial); canonical=True orders the factors by their
    name-independent structural key (needed when the product is used as an interning key)"""
    t = None
    if canonical:
        m = sorted(m, key=lambda ap: (structural_key(ATOMS[ap[0]]), ap[1]))
    for a, p in m:
        x = _real(ATOMS[a])
        if p > 0:
            f = x
            for _ in range(p - 1):
                f = f * x
        else:
            f = z3.RealVal(1) / x
            for _ in range(-p - 1):
                f = f / x
        t = f if t is None else t * f
    return t


def _mono_key(m):
    return tuple(sorted((structural_key(ATOMS[a]), pw) for a, pw in m))


def rebuild(p):
    """polynomial -> z3 term in a canonical, name-independent order (monomials and factors sorted by structural key),
    so that equal polynomials over differently named constants rebuild to terms of the same shape"""
    t = None
    for m in sorted(p, key=lambda mm: (_mono_key(mm), mm)):
        c = p[m]
        mt = rebuild_mono(m, canonical=True)
        cz = z3.RealVal(f"{c.numerator}/{c.denominator}")
        term = cz if mt is None else (mt if c == 1 else cz * mt)
        t = term if t is None else t + term
    return t if t is not None else z3.RealVal(0)


def split(p, var_ids):
    """split each monomial into (index-free coefficient poly, core monomial over atoms mentioning var_ids).
    returns dict core_monomial -> coefficient poly"""
    out = {}
    for m, c in p.items():
        free, core = [], []
        for a, pw in m:
            (core if contains_any(ATOMS[a], var_ids) else free).append((a, pw))
        core = tuple(core)
        cp = out.setdefault(core, {})
        fm = tuple(free)
        v = cp.get(fm, 0) + c
        if v == 0:
            cp.pop(fm, None)
        else:
            cp[fm] = v
    return {k: v for k, v in out.items() if v}
