"""Frame / history: module-level mutable state of the code under verification.

A contract speaks about ONE call from the state in which the modules were loaded.  Code that keeps state between calls
(a memo dictionary, a class-level cache, an lru_cache) is only covered if that state cannot change a later result.
This module finds such state in the exponax modules, restores the pristine state before every verified case and tells
the verifier when a call has written to it -- the verifier then checks a SECOND and a THIRD call, with renamed input
symbols, against the spec in the state the first call left behind (contracts.verify_contract)."""
from __future__ import annotations

import copy
import sys

PREFIX = "exponax"
_PRISTINE = None


def _containers():
    out = {}
    for n, m in list(sys.modules.items()):
        if m is None or not (n == PREFIX or n.startswith(PREFIX + ".")):
            continue
        for k, v in list(vars(m).items()):
            if k.startswith("__"):
                continue
            if isinstance(v, (dict, list, set)):
                out[(n, k)] = v
            elif isinstance(v, type) and getattr(v, "__module__", None) == n:
                for a, w in list(vars(v).items()):
                    if not a.startswith(("__", "_abc")) and isinstance(w, (dict, list, set)):
                        out[(n, k, a)] = w
            elif callable(v) and getattr(v, "__module__", None) == n:
                if hasattr(v, "cache_info") and hasattr(v, "cache_clear"):
                    out[(n, k, "<lru_cache>")] = v
                for a, w in list(getattr(v, "__dict__", {}).items()):
                    if isinstance(w, (dict, list, set)):
                        out[(n, k, a)] = w
    return out


def _sig(v):
    if hasattr(v, "cache_info"):
        return ("lru", v.cache_info().currsize)
    if isinstance(v, dict):
        return ("dict", len(v), tuple(sorted(map(repr, v.keys()))))
    return (type(v).__name__, len(v))


def snapshot():
    """record the state the modules were loaded with"""
    global _PRISTINE
    _PRISTINE = {key: (None if hasattr(v, "cache_info") else copy.copy(v)) for key, v in _containers().items()}


def reset():
    """restore the loaded state (before every verified case)"""
    if _PRISTINE is None:
        snapshot()
        return
    for key, v in _containers().items():
        if hasattr(v, "cache_clear"):
            v.cache_clear()
            continue
        p = _PRISTINE.get(key)
        v.clear()
        if p:
            (v.update if isinstance(v, (dict, set)) else v.extend)(p)


def written():
    """names of the module-level containers whose contents differ from the loaded state"""
    if _PRISTINE is None:
        snapshot()
    out = []
    for key, v in _containers().items():
        p = _PRISTINE.get(key)
        if hasattr(v, "cache_info"):
            if v.cache_info().currsize:
                out.append(".".join(key))
        elif p is None:
            if len(v):
                out.append(".".join(key))
        elif _sig(v) != _sig(p):
            out.append(".".join(key))
    return out
