"""Harness helpers: named symbolic inputs.  In replay mode (engine.concrete is a dict) the same calls
return the concrete python values of the counterexample, so that a harness can be re-run natively."""
from __future__ import annotations

from fractions import Fraction

import z3

from . import engine, smt, values
from .values import SArr, SFloat, SInt


def _conc(e, name):
    if e.concrete is not None and name in e.concrete:
        return e.concrete[name]
    return None


CONCRETE_ABSTRACT = [False]  # replay mode: abstract operators become fixed concrete functions


def _fit_int(c, lo, hi):
    c = Fraction(c)
    v = int(c) if c.denominator == 1 else int(abs(c) * 2) + 1
    if lo is not None and v < lo:
        v = lo + (abs(v) % 3)
    if hi is not None and v > hi:
        v = hi
    return v


def _fit_real(c, lo, hi, lo_strict, nonzero):
    v = Fraction(c)
    if lo is not None and (v < lo or (lo_strict and v == lo)):
        v = lo + abs(v) + Fraction(1, 4)
    if hi is not None and v > hi:
        v = Fraction(hi) - (Fraction(1, 3) if (lo is not None and hi - Fraction(1, 3) > lo) else 0)
    if nonzero and v == 0:
        v = Fraction(1, 2)
    return float(v)


def _rn(e, name, kind):
    """harness symbols of a SECOND invocation in the same path (history check, contracts.verify_contract) are renamed:
    e.sym_rename = {'real': suffix, 'int': suffix} -- an empty suffix keeps the symbol of the first invocation"""
    rn = getattr(e, "sym_rename", None)
    if not rn:
        seen = getattr(e, "sym_names", None)
        if seen is not None and (name, kind) not in seen:
            seen.append((name, kind))     # (first invocation: remember which symbols the harness uses)
        return name
    if "only" in rn:                      # exactly the listed symbols (or every array) get a new name, all others are kept
        return name + rn.get("suffix", "~2") if (name in rn["only"] or (kind == "array" and "<arrays>" in rn["only"])) else name
    return name + rn.get("array" if kind == "array" and "array" in rn else ("real" if kind == "array" else kind), "")


def integer(e, name, lo=None, hi=None):
    name = _rn(e, name, "int")
    c = _conc(e, name)
    if c is not None:
        return _fit_int(c, lo, hi)
    v = z3.Int(name)
    if lo is not None:
        e.assume(v >= lo)
    if hi is not None:
        e.assume(v <= hi)
    return SInt(v)


def real(e, name, lo=None, hi=None, lo_strict=False, nonzero=False):
    name = _rn(e, name, "real")
    c = _conc(e, name)
    if c is not None:
        return _fit_real(c, lo, hi, lo_strict, nonzero)
    v = z3.Real(name)
    if lo is not None:
        e.assume(v > lo if lo_strict else v >= lo)
    if hi is not None:
        e.assume(v <= hi)
    if nonzero:
        e.assume(v != 0)
    return SFloat(v)


def real0d(e, name, nonzero=False):
    """symbolic real as a 0-d array (use where the code multiplies the scalar by a python complex constant: a float
    subclass would be consumed natively by complex.__mul__)"""
    name = _rn(e, name, "real")
    c = _conc(e, name)
    if c is not None:
        return _fit_real(c, None, None, False, nonzero)
    v = z3.Real(name)
    if nonzero:
        e.assume(v != 0)
    return SArr((), lambda i: v, "real", name=name)


def pos_real(e, name):
    return real(e, name, lo=0, lo_strict=True)


def real_tuple(e, name, n):
    return tuple(real(e, f"{name}{j}") for j in range(n))


def vector(e, name, n):
    """1-d real array of n named scalars"""
    comps = [real(e, f"{name}{j}") for j in range(n)]
    terms = [smt.R(c) for c in comps]
    a = SArr((n,), lambda i: values.select_by_index(i[0], terms, "real") if not isinstance(i[0], int) else terms[i[0]], "real", name=name)
    a._named_components = [f"{name}{j}" for j in range(n)]
    return a


def matrix(e, name, n, m):
    comps = [[smt.R(real(e, f"{name}{i}_{j}")) for j in range(m)] for i in range(n)]

    def fn(idx):
        i, j = idx
        if isinstance(i, int) and isinstance(j, int):
            return comps[i][j]
        rows = [values.select_by_index(j, comps[r], "real") if not isinstance(j, int) else comps[r][j] for r in range(n)]
        return values.select_by_index(i, rows, "real") if not isinstance(i, int) else rows[i]
    a = SArr((n, m), fn, "real", name=name)
    a._named_components = [[f"{name}{i}_{j}" for j in range(m)] for i in range(n)]
    return a


def array(e, name, shape, kind="real", constraint=None):
    """uninterpreted array (arbitrary contents).  constraint(elem) -> bool term states `forall idx. P(a[idx])`:
    the instance for every index that is ever read is added to the path condition."""
    name = _rn(engine.cur() if e is None else e, name, "array")
    a = values.fresh_array(name, shape, kind)
    if constraint is None:
        return a
    inner = a._fn

    def fn(idx):
        el = inner(idx)
        fact = constraint(el)
        eng = engine.cur()
        if not isinstance(fact, bool) and not any(fact.get_id() == c.get_id() for c in eng.pc):
            eng.pc.append(fact)
        return el
    a._fn = fn
    return a


class AbstractOp:
    """uninterpreted array -> array operator (e.g. an arbitrary nonlinear term): only congruence is known"""

    def __init__(self, name):
        self.name = name

    def __call__(self, u):
        from . import ops
        from .smt import CX
        if CONCRETE_ABSTRACT[0]:
            return 0.3 * u * u + 0.1 * u  # replay mode: a fixed concrete operator (same formula natively and in the shim)
        U = values.const_arr(u)
        if U.kind == "complex":
            gre, gim = ops.opaque_apply(self.name + "re", U), ops.opaque_apply(self.name + "im", U)
            return SArr(U.shape, lambda idx: CX(gre(idx), gim(idx)), "complex")
        g = ops.opaque_apply(self.name, U)
        return SArr(U.shape, lambda idx: g(idx), "real")


def wshape(D, N):
    return (N,) * (D - 1) + (N // 2 + 1,)


def sshape(D, N):
    return (N,) * D
