"""Level-2 lemmas: statements proved from the contracts' post-conditions (spec functions) and listed axioms."""
from __future__ import annotations

import z3

from . import engine
from .engine import Engine

LEMMAS: dict[str, "Lemma"] = {}


class Lemma:
    def __init__(self, name, props, fn, assumes=(), doc=""):
        self.name, self.props, self.fn, self.assumes, self.doc = name, set(props), fn, list(assumes), doc
        LEMMAS[name] = self


def lemma(name, props, assumes=(), doc=""):
    def deco(fn):
        Lemma(name, props, fn, assumes, doc or (fn.__doc__ or ""))
        return fn
    return deco


def run_lemma(l: Lemma) -> Engine:
    e = Engine(f"lemma:{l.name}")
    e.run(l.fn)
    return e


def canary(e: Engine, name, goal, **kw):
    """the (deliberately wrong) goal must be refutable: guards against vacuous hypotheses"""
    from .engine import Obligation, check_sat
    ob = Obligation(f"{e.func_name}::canary: {name}", "canary")
    ob.path, ob.func = e.path_id, e.func_name
    e.obligations.append(ob)
    st, _ = check_sat(e.pc + e.hyps + [z3.Not(goal)], **kw)
    ob.status = "discharged" if st == "sat" else ("unknown" if st == "unknown" else "refuted")
    ob.note = "perturbed statement is refutable (non-vacuity)"
    return st == "sat"
