"""Scalar term layer of symjnp: exact real / complex / boolean terms over z3.

R-values  : int | Fraction | z3.ArithRef        (real or int sorted)
B-values  : bool | z3.BoolRef
C-values  : CX(re, im) with R-valued components

Concrete parts are folded in Python (exact rationals); everything else is a z3 term.
IEEE arithmetic is NOT modelled: floats met in the code are lifted to exact rationals
(or rational multiples of the symbol PI), see lift_float.
"""
from __future__ import annotations

import math
from fractions import Fraction

import z3


class OutsideSubset(Exception):
    """The code used something the contract shim does not model: tool limit (exit 3)."""


# --------------------------------------------------------------------------- constants
PI = z3.Real("PI")
GLOBAL_AXIOMS = [PI > z3.RealVal("3.14159"), PI < z3.RealVal("3.14160")]

ER = z3.Function("ER", z3.RealSort(), z3.RealSort())  # real exponential
COS = z3.Function("COS", z3.RealSort(), z3.RealSort())
SIN = z3.Function("SIN", z3.RealSort(), z3.RealSort())
SQRT = z3.Function("SQRT", z3.RealSort(), z3.RealSort())
LOG = z3.Function("LOG", z3.RealSort(), z3.RealSort())
RPOW = z3.Function("RPOW", z3.RealSort(), z3.RealSort(), z3.RealSort())
ROUND = z3.Function("ROUND", z3.RealSort(), z3.RealSort())
_MATH_UFS = {"ER", "COS", "SIN", "SQRT", "LOG", "RPOW", "ROUND"}


def is_conc(x):
    return isinstance(x, (int, Fraction)) and not isinstance(x, bool)


def is_term(x):
    return isinstance(x, z3.ArithRef)


def lift_float(x: float):
    """Python float -> exact R-value (rational, or rational multiple of PI)."""
    if x != x:
        raise OutsideSubset("NaN reached the shim (a symbolic scalar leaked through a native float operation)")
    if math.isinf(x):
        raise OutsideSubset("infinite float constant")
    if x == int(x) and abs(x) < 1e15:
        return int(x)
    for lim in (10**4, 10**6):
        fr = Fraction(x).limit_denominator(lim)
        if float(fr) == x:
            return fr
    r = x / math.pi
    fp = Fraction(r).limit_denominator(10**4)
    if fp != 0 and abs(float(fp) * math.pi - x) <= 4e-16 * abs(x):
        return rmul(fp, PI)
    return Fraction(x)


def R(x):
    """Lift any python/z3 scalar to an R-value."""
    if isinstance(x, bool):
        return int(x)
    if isinstance(x, (int, Fraction)):
        return x
    if isinstance(x, z3.ArithRef):
        return x
    if isinstance(x, z3.BoolRef):
        return z3.If(x, z3.IntVal(1), z3.IntVal(0))
    if hasattr(x, "_sym_term"):
        return x._sym_term()
    if isinstance(x, float):
        return lift_float(x)
    raise OutsideSubset(f"cannot lift {type(x).__name__} to a real term")


def z(x):
    """R-value -> z3 term."""
    if isinstance(x, z3.ExprRef):
        return x
    if isinstance(x, bool):
        return z3.BoolVal(x)
    if isinstance(x, int):
        return z3.IntVal(x)
    if isinstance(x, Fraction):
        if x.denominator == 1:
            return z3.IntVal(x.numerator)
        return z3.RealVal(f"{x.numerator}/{x.denominator}")
    raise OutsideSubset(f"z(): {type(x).__name__}")


def zr(x):
    """R-value -> z3 term of Real sort."""
    t = z(x)
    if t.sort() == z3.IntSort():
        if z3.is_int_value(t):
            return z3.RealVal(t.as_long())
        return z3.ToReal(t)
    return t


def conc_of(t):
    """z3 numeral -> python number, else None."""
    if z3.is_int_value(t):
        return t.as_long()
    if z3.is_rational_value(t):
        return Fraction(t.numerator_as_long(), t.denominator_as_long())
    return None


def norm(t):
    """fold a z3 numeral back to a python number"""
    if isinstance(t, z3.ExprRef):
        c = conc_of(t)
        if c is not None:
            return c
    return t


def is_int_sorted(x):
    if isinstance(x, int):
        return True
    if isinstance(x, Fraction):
        return x.denominator == 1
    return x.sort() == z3.IntSort()


def radd(a, b):
    if is_conc(a) and is_conc(b):
        return a + b
    if is_conc(a) and a == 0:
        return b
    if is_conc(b) and b == 0:
        return a
    return z(a) + z(b)


def rneg(a):
    if is_conc(a):
        return -a
    return -a


def rsub(a, b):
    if is_conc(a) and is_conc(b):
        return a - b
    if is_conc(b) and b == 0:
        return a
    if is_conc(a) and a == 0:
        return rneg(b)
    return z(a) - z(b)


def rmul(a, b):
    if is_conc(a) and is_conc(b):
        return a * b
    for x, y in ((a, b), (b, a)):
        if is_conc(x):
            if x == 0:
                return 0
            if x == 1:
                return y
            if x == -1:
                return rneg(y)
    return z(a) * z(b)


NATIVE_REPLAY = [False]   # set by native.run_native


class DivisionObligation:
    hook = None       # set by engine: hook(denominator R-value) -> None
    hook_cond = None  # set by engine: hook_cond(condition "denominator is non-zero") -> None


def rdiv(a, b, *, guard=True):
    """real division a/b; emits a `denominator != 0` obligation through the engine hook"""
    if is_conc(b):
        if b == 0:
            if NATIVE_REPLAY[0]:
                # numeric replay: everything is concrete, so the unselected branch of a `where` divides by a concrete
                # zero; the value is a NaN marker there (numeval), which the comparison with the native result skips
                return z3.Real("NAN!")
            raise ZeroDivisionError("division by concrete zero")
        if is_conc(a):
            return Fraction(a) / Fraction(b)
        if b == 1:
            return a
        return rmul(Fraction(1) / Fraction(b), a)
    if guard and DivisionObligation.hook is not None:
        DivisionObligation.hook(b)
    if is_conc(a) and a == 0:
        return 0
    return zr(a) / zr(b)


def rpow_int(a, n: int):
    if n == 0:
        return 1
    if n < 0:
        return rdiv(1, rpow_int(a, -n))
    if is_conc(a):
        return a**n
    r = a
    for _ in range(n - 1):
        r = rmul(r, a)
    return r


def rabs(a):
    if is_conc(a):
        return abs(a)
    return z3.If(a >= 0, a, -a)


def rite(c, a, b):
    if isinstance(c, bool):
        return a if c else b
    if is_conc(a) and is_conc(b) and a == b:
        return a
    ta, tb = z(a), z(b)
    if ta.sort() != tb.sort():
        ta, tb = zr(a), zr(b)
    return z3.If(c, ta, tb)


def rfloordiv(a, b):
    if is_conc(a) and is_conc(b):
        return a // b
    if is_int_sorted(a) and is_int_sorted(b):
        if (is_conc(b) and b > 0) or _provably_positive(b):
            return z(a) / z(b)  # z3 int division == floor for positive divisor
        raise OutsideSubset("integer floor division by a divisor that is not provably positive")
    raise OutsideSubset("floor division of reals")


def _provably_positive(b):
    """symbolic integer divisor: accepted when the current path condition proves it positive"""
    if is_conc(b):
        return b > 0
    from . import engine
    e = engine.CURRENT
    try:
        return e is not None and bool(e.holds(z(b) > 0))
    except Exception:
        return False


def rmod(a, b):
    if is_conc(a) and is_conc(b):
        return a % b
    if is_int_sorted(a) and is_int_sorted(b) and ((is_conc(b) and b > 0) or _provably_positive(b)):
        return z(a) % z(b)
    raise OutsideSubset("modulo outside int % positive divisor")


# ----------------------------------------------------------------------------- booleans
def band(a, b):
    if isinstance(a, bool):
        return b if a else False
    if isinstance(b, bool):
        return a if b else False
    return z3.And(a, b)


def bor(a, b):
    if isinstance(a, bool):
        return True if a else b
    if isinstance(b, bool):
        return True if b else a
    return z3.Or(a, b)


def bnot(a):
    if isinstance(a, bool):
        return not a
    return z3.Not(a)


def _cmp(op, a, b):
    if is_conc(a) and is_conc(b):
        return {"<": a < b, "<=": a <= b, ">": a > b, ">=": a >= b, "==": a == b, "!=": a != b}[op]
    ta, tb = z(a), z(b)
    return {"<": lambda: ta < tb, "<=": lambda: ta <= tb, ">": lambda: ta > tb, ">=": lambda: ta >= tb,
            "==": lambda: ta == tb, "!=": lambda: ta != tb}[op]()


def rlt(a, b): return _cmp("<", a, b)
def rle(a, b): return _cmp("<=", a, b)
def rgt(a, b): return _cmp(">", a, b)
def rge(a, b): return _cmp(">=", a, b)
def req(a, b): return _cmp("==", a, b)
def rne(a, b): return _cmp("!=", a, b)


def rmax(a, b):
    if is_conc(a) and is_conc(b):
        return max(a, b)
    return rite(rge(a, b), a, b)


def rmin(a, b):
    if is_conc(a) and is_conc(b):
        return min(a, b)
    return rite(rle(a, b), a, b)


# ------------------------------------------------------------------------------ complex
class CX:
    __slots__ = ("re", "im", "nz")

    def __init__(self, re, im=0):
        self.re = re
        self.im = im
        self.nz = None

    def is_real(self):
        return is_conc(self.im) and self.im == 0

    def __repr__(self):
        return f"CX({self.re}, {self.im})"


def C(x):
    if isinstance(x, CX):
        return x
    if isinstance(x, complex):
        return CX(lift_float(x.real), lift_float(x.imag))
    return CX(R(x), 0)


def is_cx(x):
    return isinstance(x, (CX, complex))


def cadd(a, b):
    return CX(radd(a.re, b.re), radd(a.im, b.im))


def csub(a, b):
    return CX(rsub(a.re, b.re), rsub(a.im, b.im))


def cneg(a):
    return CX(rneg(a.re), rneg(a.im))


def cmul(a, b):
    return CX(rsub(rmul(a.re, b.re), rmul(a.im, b.im)), radd(rmul(a.re, b.im), rmul(a.im, b.re)))


def cconj(a):
    return CX(a.re, rneg(a.im))


def cabs2(a):
    return radd(rmul(a.re, a.re), rmul(a.im, a.im))


NZ_HINT: dict = {}


def cnonzero(b):
    """b != 0 for a complex value, stated on the factors it is known to be a product of
    (w**3 != 0  <=>  w != 0): keeps the division obligations of the contour formulas linear in size"""
    bases = getattr(b, "nz", None) or [b]
    out = True
    for f in bases:
        out = band(out, bor(rne(f.re, 0), rne(f.im, 0)))
    return out


def cdiv(a, b):
    if b.is_real():
        return CX(rdiv(a.re, b.re), rdiv(a.im, b.re, guard=False))
    if is_conc(b.re) and b.re == 0:  # purely imaginary: a/(i y) = (a.im - i a.re)/y
        return CX(rdiv(a.im, b.im), rdiv(rneg(a.re), b.im, guard=False))
    den = cabs2(b)
    num = cmul(a, cconj(b))
    nzc = cnonzero(b)
    if isinstance(den, z3.ExprRef) and not isinstance(nzc, bool):
        NZ_HINT[den.get_id()] = (den, nzc)  # |b|^2 != 0  <=>  every factor of b is non-zero
    if DivisionObligation.hook_cond is not None:
        DivisionObligation.hook_cond(nzc)
    return CX(rdiv(num.re, den, guard=False), rdiv(num.im, den, guard=False))


def cpow_int(a, n: int):
    if n == 0:
        return CX(1, 0)
    if n < 0:
        return cdiv(CX(1, 0), cpow_int(a, -n))
    r = a
    for _ in range(n - 1):
        r = cmul(r, a)
    if n > 1:
        r.nz = getattr(a, "nz", None) or [a]
    return r


def cexp(a):
    if a.is_real():
        return CX(rexp(a.re), 0)
    m = rexp(a.re)
    return CX(rmul(m, rcos(a.im)), rmul(m, rsin(a.im)))


def ceq(a, b):
    return band(req(a.re, b.re), req(a.im, b.im))


def cite(c, a, b):
    return CX(rite(c, a.re, b.re), rite(c, a.im, b.im))


# --------------------------------------------------------------- transcendental symbols
def rexp(a):
    if is_conc(a) and a == 0:
        return 1
    return ER(zr(a))


def rcos(a):
    if is_conc(a) and a == 0:
        return 1
    return COS(zr(a))


def rsin(a):
    if is_conc(a) and a == 0:
        return 0
    return SIN(zr(a))


def rsqrt(a):
    if is_conc(a):
        if a < 0:
            raise OutsideSubset("sqrt of negative constant")
        fr = Fraction(a)
        rn, rd = math.isqrt(fr.numerator), math.isqrt(fr.denominator)
        if rn * rn == fr.numerator and rd * rd == fr.denominator:
            return Fraction(rn, rd) if rd != 1 else rn
    return SQRT(zr(a))


def csqrt(a):
    """principal square root of a complex number: with m = |a|,  sqrt(a) = sqrt((m + re)/2) + i sign(im) sqrt((m - re)/2)
    (sign(0) = +1: the branch numpy/jax take for +0 imaginary parts)"""
    if a.is_real() and is_conc(a.re) and a.re >= 0:
        return CX(rsqrt(a.re), 0)
    m = rsqrt(radd(rmul(a.re, a.re), rmul(a.im, a.im)))
    re = rsqrt(rdiv(radd(m, a.re), 2, guard=False))
    im = rsqrt(rdiv(rsub(m, a.re), 2, guard=False))
    return CX(re, rite(rge(a.im, 0), im, rneg(im)))


def rlog(a):
    if is_conc(a) and a == 1:
        return 0
    return LOG(zr(a))


def rpow_real(a, p):
    if is_conc(p) and Fraction(p).denominator == 1:
        return rpow_int(a, int(p))
    if is_conc(p) and Fraction(p) == Fraction(1, 2):
        return rsqrt(a)
    return RPOW(zr(a), zr(p))


# ------------------------------------------------------------------ axiom instantiation
def subterms(t, seen=None, out=None):
    """all sub-expressions of a z3 term (DAG walk)"""
    if seen is None:
        seen, out = set(), []
    stack = [t]
    while stack:
        e = stack.pop()
        i = e.get_id()
        if i in seen:
            continue
        seen.add(i)
        out.append(e)
        if z3.is_app(e):
            stack.extend(e.children())
        elif z3.is_quantifier(e):
            stack.append(e.body())
    return out


def math_axiom_instances(formulas, *, exp_pairs=False, trig_pairs=False):
    """Mechanical one-round instantiation of A1/A2/A4 for the math symbols occurring in formulas.
    Returns (list of z3 facts, list of human readable names of the axiom schemes used)."""
    seen, terms = set(), []
    for f in formulas:
        subterms(f, seen, terms)
    facts, used = [], set()
    er_args, trig_args = [], []
    for e in terms:
        if not z3.is_app(e):
            continue
        n = e.decl().name()
        if n not in _MATH_UFS:
            continue
        a = e.arg(0)
        if n == "ER":
            facts.append(e > 0)
            facts.append(z3.Implies(a <= 0, e <= 1))
            facts.append(z3.Implies(a >= 0, e >= 1))
            facts.append(z3.Implies(a == 0, e == 1))
            facts.append(z3.Implies(a < 0, e < 1))
            used.add("A1: ER(x)>0, ER(0)=1, x<=0 => ER(x)<=1, x<0 => ER(x)<1, x>=0 => ER(x)>=1")
            er_args.append(a)
        elif n in ("COS", "SIN"):
            facts.append(COS(a) * COS(a) + SIN(a) * SIN(a) == 1)
            facts.append(z3.Implies(a == 0, z3.And(COS(a) == 1, SIN(a) == 0)))
            used.add("A1: COS(y)^2+SIN(y)^2=1, COS(0)=1, SIN(0)=0")
            trig_args.append(a)
        elif n == "SQRT":
            facts.append(e >= 0)
            facts.append(z3.Implies(a >= 0, e * e == a))
            used.add("A2: SQRT(x)>=0, x>=0 => SQRT(x)^2=x")
        elif n == "RPOW":
            p = e.arg(1)
            facts.append(z3.Implies(a > 0, e > 0))
            facts.append(z3.Implies(p == 0, e == 1))
            facts.append(z3.Implies(p == 1, e == a))
            used.add("A4: x>0 => RPOW(x,p)>0, RPOW(x,0)=1, RPOW(x,1)=x")
    if exp_pairs:
        ded = {a.get_id(): a for a in er_args}.values()
        ded = list(ded)
        for i, a in enumerate(ded):
            facts.append(ER(a) * ER(-a) == 1)
            for b in ded[i:]:
                facts.append(ER(a) * ER(b) == ER(z3.simplify(a + b)))
        used.add("A1: ER(a)ER(b)=ER(a+b), ER(a)ER(-a)=1 (all pairs of occurring arguments)")
    if trig_pairs:
        ded = list({a.get_id(): a for a in trig_args}.values())
        for i, a in enumerate(ded):
            facts.append(COS(-a) == COS(a))
            facts.append(SIN(-a) == -SIN(a))
            for b in ded[i:]:
                s = z3.simplify(a + b)
                facts.append(COS(s) == COS(a) * COS(b) - SIN(a) * SIN(b))
                facts.append(SIN(s) == SIN(a) * COS(b) + COS(a) * SIN(b))
        used.add("A1: angle addition for COS/SIN (all pairs), parity")
    return facts, sorted(used)
