"""Counterexample files and native replay (real jax.numpy, float64) of refuted obligations."""
from __future__ import annotations

import json
import os
import re
import time

VERIF = os.path.dirname(os.path.dirname(os.path.abspath(__file__)))
TOTAL_BUDGET_S = 900          # wall-clock budget of one check run for all native replays together
_T0 = [time.time()]           # (set when the first replay of the run starts)
_started = [False]


def _slug(s):
    return re.sub(r"[^A-Za-z0-9_.=-]+", "_", s)[:120]


def write_replay(prop, ob, seed=0):
    if not _started[0]:
        _T0[0], _started[0] = time.time(), True
    rdir = os.path.join(VERIF, "replays")
    if os.environ.get("SYMJNP_EVIDENCE_DIR"):  # runs on scratch copies keep their output out of /verif/replays
        rdir = os.path.join(VERIF, "replays", "scratch-" + os.path.basename(os.environ.get("VERIF_REPO", "repo")))
    os.makedirs(rdir, exist_ok=True)
    path = os.path.join(rdir, f"{prop}-{_slug(ob['name'])}.json")
    rec = {"property": prop, "obligation": ob["name"], "kind": ob["kind"], "item": ob.get("item"),
           "model": ob.get("model"), "solver_output": ob.get("smt2", "")[:20000], "backend": ob.get("backend"),
           "native": None, "confirmed": False, "written": time.strftime("%Y-%m-%dT%H:%M:%S")}
    try:
        from . import native
        if time.time() - _T0[0] > TOTAL_BUDGET_S:
            # (the first replays of a run get the time; a long list of failing obligations is not replayed one by one)
            rec["native"] = {"confirmed": False, "note": f"not replayed: the run's total replay budget of {TOTAL_BUDGET_S} s is used up"}
        else:
            rec["native"] = native.replay_obligation(ob, seed=seed)
        rec["confirmed"] = bool(rec["native"] and rec["native"].get("confirmed"))
    except Exception as ex:  # replay machinery must never turn a refutation into a crash
        rec["native"] = {"error": f"{type(ex).__name__}: {ex}"}
    json.dump(rec, open(path, "w"), indent=1, default=str)
    return os.path.relpath(path, VERIF)


def last_confirmed(path):
    try:
        return bool(json.load(open(os.path.join(VERIF, path)))["confirmed"])
    except Exception:
        return False
