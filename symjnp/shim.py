"""The contract shim: assumed contracts for the jax / jax.numpy / jax.random / jax.tree_util
names that exponax uses.  Each function is total on SArr or raises OutsideSubset.

This module is the complete trusted interface to jax (DESIGN 2.3)."""
from __future__ import annotations

import math
import types
from fractions import Fraction

import z3

from . import engine, smt, values
from .smt import CX, OutsideSubset
from .values import SArr, SBool, SFloat, SInt, const_arr, dim_term, mk_bool, mk_int

USED = set()  # names of shim contracts actually exercised (reported as trusted_base)


def _u(name):
    USED.add(name)


def _as_dim(n):
    if isinstance(n, (int, SInt)) and not isinstance(n, bool):
        return n
    if isinstance(n, SFloat) or isinstance(n, float):
        raise OutsideSubset("float used as dimension")
    raise OutsideSubset(f"dimension of type {type(n).__name__}")


def _shape_arg(shape):
    if isinstance(shape, (int, SInt)):
        return (shape,)
    return tuple(_as_dim(d) for d in shape)


def _kind_from_dtype(dtype, default="real"):
    if dtype is None:
        return default
    if isinstance(dtype, values.DType):
        return dtype.kind
    if dtype is bool:
        return "bool"
    if dtype is complex:
        return "complex"
    if dtype in (float, int):
        return "real"
    n = getattr(dtype, "__name__", str(dtype))
    if "complex" in n:
        return "complex"
    if "bool" in n:
        return "bool"
    if "float" in n or "int" in n:
        return "real"
    raise OutsideSubset(f"dtype {dtype}")


def _const_fill(shape, val, kind):
    shape = _shape_arg(shape)
    v = values.coerce(val, kind)
    return SArr(shape, lambda i: v, kind)


def _n_times_d(n, d):
    nd = smt.rmul(dim_term(n), smt.R(d))
    if not smt.is_conc(nd):
        nd = smt.norm(z3.simplify(smt.z(nd)))
        if not smt.is_conc(nd) and engine.cur().holds(nd == 1):
            nd = 1
    return nd


class _FFT:
    @staticmethod
    def rfftfreq(n, d=1.0):
        _u("jnp.fft.rfftfreq(n,d)[j] = j/(n*d), shape n//2+1")
        n = _as_dim(n)
        nd = _n_times_d(n, d)
        return SArr((n // 2 + 1,), lambda i: smt.rdiv(i[0], nd), "real")

    @staticmethod
    def fftfreq(n, d=1.0):
        _u("jnp.fft.fftfreq(n,d)[j] = (j if j < (n-1)//2+1 else j-n)/(n*d), shape n")
        n = _as_dim(n)
        nt = dim_term(n)
        nd = _n_times_d(n, d)
        half = dim_term((n - 1) // 2 + 1)

        def fn(i):
            j = i[0]
            k = smt.rite(smt.rlt(j, half), j, smt.rsub(j, nt))
            return smt.rdiv(k, nd)
        return SArr((n,), fn, "real")

    @staticmethod
    def rfftn(x, s=None, axes=None, norm=None):
        from . import ops
        return ops.rfftn(x, s=s, axes=axes, norm=norm)

    @staticmethod
    def irfftn(x, s=None, axes=None, norm=None):
        from . import ops
        return ops.irfftn(x, s=s, axes=axes, norm=norm)


class _Linalg:
    @staticmethod
    def norm(x, ord=None, axis=None, keepdims=False):
        _u("jnp.linalg.norm(x, axis) = sqrt(sum |x|^2 over axis) (2-norm only)")
        if ord not in (None, 2):
            raise OutsideSubset("linalg.norm with ord != 2")
        X = const_arr(x)
        if X.kind == "complex":
            sq = SArr(X.shape, lambda i: smt.cabs2(X.at_(i)), "real")
        else:
            sq = X * X
        s = values.reduce_("sum", sq, axis, keepdims)
        return JNP.sqrt(s)

    @staticmethod
    def inv(x):
        from . import ops
        return ops.linalg_inv(x)


def _ew1(name, fr, fc=None):
    def f(x):
        _u(f"jnp.{name} elementwise")
        X = const_arr(x)
        if X.kind == "complex":
            if fc is None:
                raise OutsideSubset(f"{name} of complex array")
            r = SArr(X.shape, lambda i: fc(X.at_(i)), "complex")
        else:
            r = SArr(X.shape, lambda i: fr(values.coerce(X.at_(i), "real")), "real")
        if not isinstance(x, SArr):
            # python scalar in, scalar out
            e = r.item0()
            return SFloat(e) if not isinstance(e, CX) else r
        return r
    f.__name__ = name
    return f


class _JNP(types.SimpleNamespace):
    pass


JNP = _JNP()
JNP.pi = math.pi
JNP.newaxis = None
JNP.fft = _FFT
JNP.linalg = _Linalg
JNP.float32 = float
JNP.float64 = float
JNP.complex64 = complex
JNP.complex128 = complex
JNP.bool_ = bool
JNP.int32 = int
JNP.ndarray = SArr

JNP.exp = _ew1("exp", smt.rexp, smt.cexp)
JNP.sqrt = _ew1("sqrt", smt.rsqrt, smt.csqrt)
JNP.sin = _ew1("sin", smt.rsin)
JNP.cos = _ew1("cos", smt.rcos)
JNP.log = _ew1("log", smt.rlog)


def _abs(x):
    _u("jnp.abs elementwise (complex: sqrt(re^2+im^2))")
    if not isinstance(x, SArr):
        return abs(x)
    return values.unop("abs", x)


JNP.abs = _abs
JNP.absolute = _abs


def _real(x):
    return const_arr(x).real


def _imag(x):
    return const_arr(x).imag


JNP.real = _real
JNP.imag = _imag
JNP.conj = lambda x: const_arr(x).conj()
JNP.conjugate = JNP.conj


def _asarray(x, dtype=None):
    _u("jnp.array / asarray of nested python scalars")
    a = values.from_nested(x) if isinstance(x, (list, tuple)) else const_arr(x)
    if dtype is not None:
        k = _kind_from_dtype(dtype)
        if k != a.kind:
            a = a.astype(values.DType(k))
    return a


JNP.array = _asarray
JNP.asarray = _asarray


def _ones(shape, dtype=None):
    _u("jnp.ones/zeros/full(shape)")
    return _const_fill(shape, 1, _kind_from_dtype(dtype))


def _zeros(shape, dtype=None):
    _u("jnp.ones/zeros/full(shape)")
    return _const_fill(shape, 0, _kind_from_dtype(dtype))


JNP.ones = _ones
JNP.zeros = _zeros
JNP.full = lambda shape, v, dtype=None: _const_fill(shape, smt.R(v), _kind_from_dtype(dtype))


def _ones_like(x, dtype=None):
    _u("jnp.ones_like/zeros_like keep shape and dtype kind")
    X = const_arr(x)
    k = _kind_from_dtype(dtype, X.kind)
    return _const_fill(X.shape, True if k == "bool" else 1, k)


def _zeros_like(x, dtype=None):
    _u("jnp.ones_like/zeros_like keep shape and dtype kind")
    X = const_arr(x)
    k = _kind_from_dtype(dtype, X.kind)
    return _const_fill(X.shape, False if k == "bool" else 0, k)


JNP.ones_like = _ones_like
JNP.zeros_like = _zeros_like


def _arange(a, b=None, step=None, dtype=None):
    _u("jnp.arange(a,b)[j] = a+j, length b-a (unit step)")
    if step not in (None, 1):
        raise OutsideSubset("arange with step")
    if b is None:
        a, b = 0, a
    at, bt = smt.R(a), smt.R(b)
    n = mk_int(smt.rsub(bt, at))
    if isinstance(n, int) and n < 0:
        n = 0
    return SArr((n,), lambda i: smt.radd(at, i[0]), "real")


JNP.arange = _arange


def _linspace(start, stop, num=50, endpoint=True, dtype=None):
    _u("jnp.linspace(a,b,n,endpoint)[j] = a + j*(b-a)/(n-1 or n)")
    a, b = smt.R(start), smt.R(stop)
    n = _as_dim(num)
    den = dim_term(n - 1) if endpoint else dim_term(n)
    return SArr((n,), lambda i: smt.radd(a, smt.rdiv(smt.rmul(i[0], smt.rsub(b, a)), den)), "real")


JNP.linspace = _linspace


def _diag(x):
    _u("jnp.diag (vector -> diagonal matrix, matrix -> diagonal)")
    X = const_arr(x)
    if X.ndim == 1:
        n = X.shape[0]

        def fn(i):
            c = smt.req(i[0], i[1])
            if isinstance(c, bool):
                return X.at_((i[0],)) if c else 0
            return smt.rite(c, smt.R(X.at_((i[0],))), 0)
        if X.kind == "complex":
            raise OutsideSubset("diag of complex vector")
        return SArr((n, n), fn, "real")
    if X.ndim == 2:
        return SArr((X.shape[0],), lambda i: X.at_((i[0], i[0])), X.kind)
    raise OutsideSubset("diag of rank > 2")


JNP.diag = _diag


def _meshgrid(*xs, indexing="xy"):
    _u("jnp.meshgrid(ij|xy)")
    xs = [const_arr(x) for x in xs]
    for x in xs:
        if x.ndim != 1:
            raise OutsideSubset("meshgrid of non-1d arrays")
    n = len(xs)
    dims = [x.shape[0] for x in xs]
    if indexing == "ij":
        shape = tuple(dims)
        pos = list(range(n))
    elif indexing == "xy":
        shape = list(dims)
        pos = list(range(n))
        if n >= 2:
            shape[0], shape[1] = dims[1], dims[0]
            pos[0], pos[1] = 1, 0
        shape = tuple(shape)
    else:
        raise ValueError("Valid values for indexing are 'xy' and 'ij'.")
    out = []
    for k, x in enumerate(xs):
        out.append(SArr(shape, (lambda idx, x=x, p=pos[k]: x.at_((idx[p],))), x.kind))
    return out


JNP.meshgrid = _meshgrid


def _stack(arrs, axis=0):
    _u("jnp.stack / concatenate")
    if isinstance(arrs, SArr):
        return arrs
    return values.stack(list(arrs), axis)


JNP.stack = _stack
JNP.concatenate = lambda arrs, axis=0: (_u("jnp.stack / concatenate"), values.concatenate(list(arrs), axis))[1]
JNP.expand_dims = lambda a, axis: (_u("jnp.expand_dims / moveaxis / reshape"), values.expand_dims(a, axis))[1]
JNP.moveaxis = lambda a, s, d: (_u("jnp.expand_dims / moveaxis / reshape"), values.moveaxis(a, s, d))[1]
JNP.reshape = lambda a, shape: (_u("jnp.expand_dims / moveaxis / reshape"), values.reshape(a, shape))[1]
JNP.where = lambda c, a, b: (_u("jnp.where(c,a,b) elementwise with broadcasting"), values.where(c, a, b))[1]
JNP.invert = lambda a: values.unop("not", a)
JNP.logical_not = JNP.invert
JNP.logical_and = lambda a, b: values.binop("and", a, b)
JNP.logical_or = lambda a, b: values.binop("or", a, b)
JNP.maximum = lambda a, b: (_u("jnp.maximum/minimum elementwise"), values.binop("max", a, b))[1]
JNP.minimum = lambda a, b: (_u("jnp.maximum/minimum elementwise"), values.binop("min", a, b))[1]
def _isclose(a, b, rtol=1e-05, atol=1e-08, equal_nan=False):
    _u("jnp.isclose(a,b,rtol,atol) = |a-b| <= atol + rtol*|b| (exact arithmetic)")
    A, B = const_arr(a), const_arr(b)
    d = values.unop("abs", A - B)
    return d <= (atol + rtol * values.unop("abs", B))


def _tri(upper):
    def f(x, k=0):
        _u("jnp.triu / tril")
        X = const_arr(x)
        if X.ndim != 2:
            raise OutsideSubset("triu/tril of non-matrix")

        def fn(i):
            keep = smt.rle(smt.radd(i[0], k), i[1]) if upper else smt.rge(smt.radd(i[0], k), i[1])
            e = X.at_(i)
            if isinstance(keep, bool):
                return e if keep else values.coerce(0, X.kind)
            return smt.cite(keep, e, CX(0, 0)) if X.kind == "complex" else smt.rite(keep, smt.R(e), 0)
        return SArr(X.shape, fn, X.kind)
    return f


def _sign(x):
    _u("jnp.sign elementwise")
    X = const_arr(x)
    return SArr(X.shape, lambda i: smt.rite(smt.rgt(smt.R(X.at_(i)), 0), 1, smt.rite(smt.rlt(smt.R(X.at_(i)), 0), -1, 0)), "real")


def _floor(x):
    _u("jnp.floor elementwise")
    X = const_arr(x)

    def fn(i):
        v = smt.R(X.at_(i))
        if smt.is_conc(v):
            return math.floor(v)
        return z3.ToReal(z3.ToInt(smt.zr(v)))
    r = SArr(X.shape, fn, "real")
    return r if isinstance(x, SArr) else SFloat(r.item0())


JNP.isclose = _isclose
JNP.triu = _tri(True)
JNP.tril = _tri(False)
JNP.sign = _sign
JNP.floor = _floor
JNP.clip = lambda a, lo=None, hi=None: values.binop("min", values.binop("max", a, lo) if lo is not None else a, hi) if hi is not None else values.binop("max", a, lo)
JNP.eye = lambda n, dtype=None: _diag(_ones((n,)))
JNP.power = lambda a, p: values.power(a, p)
JNP.square = lambda a: const_arr(a) * const_arr(a)


# functional spellings of the operators (same element-wise contracts as the operators themselves)
def _op2(name, fn):
    def f(a, b):
        _u("jnp.add/subtract/multiply/divide/negative/reciprocal/comparison functions = the corresponding operators")
        A = a if isinstance(a, SArr) else const_arr(a)
        return fn(A, b)
    f.__name__ = name
    return f


JNP.add = _op2("add", lambda a, b: a + b)
JNP.subtract = _op2("subtract", lambda a, b: a - b)
JNP.multiply = _op2("multiply", lambda a, b: a * b)
JNP.divide = _op2("divide", lambda a, b: a / b)
JNP.true_divide = JNP.divide
JNP.equal = _op2("equal", lambda a, b: a == b)
JNP.not_equal = _op2("not_equal", lambda a, b: a != b)
JNP.less = _op2("less", lambda a, b: a < b)
JNP.less_equal = _op2("less_equal", lambda a, b: a <= b)
JNP.greater = _op2("greater", lambda a, b: a > b)
JNP.greater_equal = _op2("greater_equal", lambda a, b: a >= b)
JNP.negative = lambda a: (_u("jnp.add/subtract/multiply/divide/negative/reciprocal/comparison functions = the corresponding operators"), -const_arr(a))[1]
JNP.reciprocal = lambda a: (_u("jnp.add/subtract/multiply/divide/negative/reciprocal/comparison functions = the corresponding operators"), 1 / const_arr(a))[1]
JNP.shape = lambda a: const_arr(a).shape
JNP.ndim = lambda a: const_arr(a).ndim
JNP.e = math.e


def _transpose(a, axes=None):
    _u("jnp.transpose / swapaxes = permutation of axes")
    A = const_arr(a)
    axes = tuple(reversed(range(A.ndim))) if axes is None else tuple(ax % A.ndim for ax in axes)
    return values.transpose(A, axes)


def _swapaxes(a, ax1, ax2):
    A = const_arr(a)
    perm = list(range(A.ndim))
    perm[ax1 % A.ndim], perm[ax2 % A.ndim] = perm[ax2 % A.ndim], perm[ax1 % A.ndim]
    return _transpose(A, perm)


def _squeeze(a, axis=None):
    _u("jnp.squeeze(axis) removes the listed size-1 axes")
    A = const_arr(a)
    if axis is None:
        axis = tuple(i for i, d in enumerate(A.shape) if isinstance(d, int) and d == 1)
    axis = (axis,) if isinstance(axis, int) else tuple(axis)
    axis = tuple(ax % A.ndim for ax in axis)
    for ax in axis:
        if not (isinstance(A.shape[ax], int) and A.shape[ax] == 1):
            raise ValueError("cannot select an axis to squeeze out which has size not equal to one")
    key = tuple(0 if i in axis else slice(None) for i in range(A.ndim))
    return values.getitem(A, key)


def _broadcast_to(a, shape):
    _u("jnp.broadcast_to")
    A = const_arr(a)
    return A + SArr(tuple(shape), lambda idx: 0, "real") if A.kind != "bool" else values.where(A, SArr(tuple(shape), lambda idx: True, "bool"), False)


JNP.transpose = _transpose
JNP.swapaxes = _swapaxes
JNP.squeeze = _squeeze
JNP.broadcast_to = _broadcast_to
JNP.full_like = lambda a, v, dtype=None: const_arr(a) * 0 + v
JNP.hstack = lambda arrs: values.concatenate(list(arrs), 0 if const_arr(arrs[0]).ndim == 1 else 1)
JNP.vstack = lambda arrs: values.concatenate([x if const_arr(x).ndim > 1 else values.expand_dims(x, 0) for x in arrs], 0)
JNP.append = lambda a, v, axis=None: values.concatenate([const_arr(a), const_arr(v) if const_arr(v).ndim else values.expand_dims(const_arr(v), 0)], 0 if axis is None else axis)


def _red(op):
    def f(x, axis=None, keepdims=False, where=None, dtype=None):
        _u(f"jnp.{op}(axis, keepdims) = finite {op} over the listed axes")
        return values.reduce_(op, x, axis, keepdims, where)
    return f


JNP.sum = _red("sum")
JNP.mean = _red("mean")
JNP.prod = _red("prod")
JNP.max = _red("max")
JNP.min = _red("min")
JNP.all = _red("all")
JNP.any = _red("any")
JNP.amax = JNP.max
JNP.amin = JNP.min


def _nansum(x, axis=None, keepdims=False, where=None):
    _u("jnp.nansum/nanmean(where=) = sum/mean over the masked entries (no NaNs in exact arithmetic)")
    return values.reduce_("sum", x, axis, keepdims, where)


def _nanmean(x, axis=None, keepdims=False, where=None):
    _u("jnp.nansum/nanmean(where=) = sum/mean over the masked entries (no NaNs in exact arithmetic)")
    return values.reduce_("mean", x, axis, keepdims, where)


JNP.nansum = _nansum
JNP.nanmean = _nanmean


def _std(x, axis=None, keepdims=False):
    from . import ops
    return ops.std(x, axis, keepdims)


JNP.std = _std


def _einsum(spec, *ops_):
    _u("jnp.einsum (explicit '->' form, ellipsis broadcast, summed indices over concrete axes)")
    spec = spec.replace(" ", "")
    lhs, rhs = spec.split("->")
    ins = lhs.split(",")
    arrs = [const_arr(o) for o in ops_]
    if len(ins) != len(arrs):
        raise ValueError("einsum operand count")
    # ellipsis dims
    ell_rank = 0
    for s, a in zip(ins, arrs):
        if "..." in s:
            ell_rank = max(ell_rank, a.ndim - (len(s) - 3))
    letters = {}
    ell_shape = [1] * ell_rank
    for s, a in zip(ins, arrs):
        if "..." in s:
            pre, post = s.split("...")
            er = a.ndim - len(pre) - len(post)
            es = a.shape[len(pre):len(pre) + er]
            for j, d in enumerate(es):
                pos = ell_rank - er + j
                if values.is_one(ell_shape[pos]):
                    ell_shape[pos] = d
                elif not values.is_one(d) and not values.dims_equal(d, ell_shape[pos]):
                    raise ValueError("einsum ellipsis shape mismatch")
            names = list(pre) + [None] * er + list(post)
        else:
            if len(s) != a.ndim:
                raise ValueError(f"einsum: operand rank mismatch {s} {a.shape}")
            names = list(s)
        for nm, d in zip(names, a.shape):
            if nm is None:
                continue
            if nm in letters:
                if not values.dims_equal(letters[nm], d):
                    raise ValueError(f"einsum: size mismatch for index {nm}")
            else:
                letters[nm] = d
    out_names = rhs.replace("...", "")
    summed = [c for c in letters if c not in out_names]
    for c in summed:
        if not isinstance(letters[c], int):
            raise OutsideSubset("einsum contraction over symbolic axis")
    if "..." in rhs:
        pre, post = rhs.split("...")
    else:
        pre, post = rhs, ""
        if ell_rank:
            raise OutsideSubset("einsum: ellipsis dropped in output")
    out_shape = tuple([letters[c] for c in pre] + ell_shape + [letters[c] for c in post])
    kind = values._promote(*[a.kind for a in arrs])
    if kind == "bool":
        kind = "real"
    import itertools

    def fn(idx):
        env = {}
        for j, c in enumerate(pre):
            env[c] = idx[j]
        ell_idx = idx[len(pre):len(pre) + ell_rank]
        for j, c in enumerate(post):
            env[c] = idx[len(pre) + ell_rank + j]
        acc = None
        for combo in itertools.product(*[range(letters[c]) for c in summed]):
            for c, v in zip(summed, combo):
                env[c] = v
            term = None
            for s, a in zip(ins, arrs):
                if "..." in s:
                    p, q = s.split("...")
                    er = a.ndim - len(p) - len(q)
                    e_idx = []
                    for j in range(er):
                        pos = ell_rank - er + j
                        e_idx.append(0 if values.is_one(a.shape[len(p) + j]) else ell_idx[pos])
                    ai = [env[c] for c in p] + e_idx + [env[c] for c in q]
                else:
                    ai = [env[c] for c in s]
                e = values.coerce(a.at_(tuple(ai)), kind)
                if term is None:
                    term = e
                else:
                    term = smt.cmul(term, e) if kind == "complex" else smt.rmul(term, e)
            if acc is None:
                acc = term
            else:
                acc = smt.cadd(acc, term) if kind == "complex" else smt.radd(acc, term)
        return acc
    return SArr(out_shape, fn, kind)


JNP.einsum = _einsum


def _dot(a, b):
    from . import ops
    return ops.dot(a, b)


JNP.dot = _dot


def _round(x, decimals=0):
    _u("jnp.round(x, decimals) -- abstract ROUND (uninterpreted), identity when decimals is None")
    X = const_arr(x)
    if X.kind == "complex":
        return SArr(X.shape, lambda i: CX(smt.ROUND(smt.zr(X.at_(i).re)), smt.ROUND(smt.zr(X.at_(i).im))), "complex")
    return SArr(X.shape, lambda i: smt.ROUND(smt.zr(smt.R(X.at_(i)))), "real")


JNP.round = _round


def _repeat(a, repeats, axis=None):
    from . import ops
    return ops.repeat(a, repeats, axis)


def _pad(a, pad_width, mode="constant"):
    from . import ops
    return ops.pad(a, pad_width, mode)


def _flip(a, axis=None):
    from . import ops
    return ops.flip(a, axis)


JNP.repeat = _repeat
JNP.pad = _pad
JNP.flip = _flip


# =============================================================================== jax, lax
class _Lax:
    @staticmethod
    def scan(f, init, xs=None, length=None):
        from . import ops
        return ops.scan(f, init, xs, length)

    @staticmethod
    def dynamic_slice_in_dim(operand, start_index, slice_size, axis=0):
        from . import ops
        return ops.dynamic_slice_in_dim(operand, start_index, slice_size, axis)


def _vmap(f, in_axes=0, out_axes=0):
    from . import ops
    return ops.vmap(f, in_axes, out_axes)


class _Random:
    @staticmethod
    def PRNGKey(seed):
        from . import ops
        return ops.Key(("seed", seed))

    @staticmethod
    def key(seed):
        return _Random.PRNGKey(seed)

    @staticmethod
    def split(key, num=2):
        from . import ops
        return ops.key_split(key, num)

    @staticmethod
    def uniform(key, shape=(), dtype=None, minval=0.0, maxval=1.0):
        from . import ops
        return ops.rnd_uniform(key, shape, minval, maxval)

    @staticmethod
    def normal(key, shape=(), dtype=None):
        from . import ops
        return ops.rnd_normal(key, shape)


import jax.tree_util as _real_jtu  # abstract arrays are pytree leaves: the real tree_util is used as is

JAX = types.SimpleNamespace()
JAX.numpy = JNP
JAX.lax = _Lax
JAX.vmap = _vmap
JAX.random = _Random
JAX.tree_util = _real_jtu
JAX.Array = SArr
JAX.config = types.SimpleNamespace(update=lambda *a, **k: None)
import contextlib as _contextlib  # noqa: E402
JAX.ensure_compile_time_eval = _contextlib.nullcontext   # (tracing is not represented: DESIGN 2.9-4)
JAX.named_scope = lambda *a, **k: _contextlib.nullcontext()


def _jit(f=None, **kw):
    if f is None:
        return lambda g: g
    return f


JAX.jit = _jit
JR = _Random
JTU = _real_jtu
