"""Native replay of a refuted contract obligation against the real code (real jax.numpy, float64).

The harness of the failing case is re-run with CONCRETE values for its named symbols (the solver's model first, then a
fixed battery of configurations): the real function is called natively on concrete inputs and its result is compared
with the spec, evaluated numerically by symjnp.numeval.  A disagreement (or an exception mismatch) is a native
witness of the violation."""
from __future__ import annotations

import io
import contextlib
import itertools
import json
import math
import os
import random
import re
import sys
import time
import traceback
from fractions import Fraction

import numpy as np

from . import contracts as CT
from . import engine, numeval, ops, rules, smt, sym, values
from .values import SArr

VERIF = os.path.dirname(os.path.dirname(os.path.abspath(__file__)))
TOL = 1e-7
REPLAY_BUDGET_S = 240   # wall-clock budget for the native replay of ONE obligation (model + battery)


def _parse(v):
    try:
        if "/" in v:
            a, b = v.split("/")
            return Fraction(int(a), int(b))
        return Fraction(v)
    except Exception:
        return None


def _model_values(model):
    out = {}
    for k, v in (model or {}).items():
        if "!" in k or k == "PI":
            continue
        f = _parse(str(v))
        if f is not None:
            out[k] = f
    return out


def battery(seed, n=24):
    rnd = random.Random(1234 + seed)
    for i in range(n):
        N = [6, 5, 8, 7, 4, 9, 3, 10][i % 8]
        L = [Fraction(1), Fraction(3), Fraction(25, 4), Fraction(7, 2)][i % 4]
        # (every fourth configuration takes a large step: |dt * symbol| well beyond pi, where branch cuts and stiffness show)
        yield {"N": Fraction(N), "L": L, "dt": Fraction(7) if i % 4 == 3 else Fraction([1, 7, 3][i % 3], 10), "C": Fraction(1 + i % 2), "E": Fraction(1),
               "M": Fraction([16, 7][i % 2]), "r": [Fraction(1), Fraction(3, 2), Fraction(1, 2)][i % 3], "kinj": Fraction(1 + i % 2), "n": Fraction(2 + i % 3),
               "__rnd__": rnd.random()}


class ConcreteEngine(engine.Engine):
    """engine in replay mode: named symbols take concrete values, decisions are evaluated concretely"""

    def __init__(self, name, concrete):
        super().__init__(name)
        self.concrete = _Defaults(concrete)

    def prove(self, name, goal, **kw):  # obligations are not the point here
        return True

    def satisfiable(self, *a, **k):
        return True

    def holds(self, cond, timeout_ms=0):
        if isinstance(cond, bool):
            return cond
        try:
            return bool(numeval.NumEnv(ops.interner(self)).ev(cond))
        except Exception:
            return False

    def decide(self, cond):
        if isinstance(cond, bool):
            return cond
        return bool(numeval.NumEnv(ops.interner(self)).ev(cond))

    def assume(self, cond):
        if isinstance(cond, bool):
            ok = cond
        else:
            ok = bool(numeval.NumEnv(ops.interner(self)).ev(cond))
        if not ok:
            raise engine.PathAbort()


class _Defaults(dict):
    """concrete values with seeded defaults for symbols the model / battery entry does not mention"""

    def __init__(self, base):
        super().__init__(base)
        self.rnd = random.Random(int(1e6 * float(base.get("__rnd__", 0.5))))

    def __contains__(self, k):
        return True

    def __getitem__(self, k):
        if not dict.__contains__(self, k):
            self[k] = Fraction(self.rnd.randint(-150, 150), 100) or Fraction(1, 2)
        return dict.__getitem__(self, k)


def _to_native(x, env):
    import jax.numpy as jnp
    if isinstance(x, SArr):
        return jnp.asarray(numeval.to_numpy(x, env))
    if isinstance(x, (values.SInt, values.SFloat)):
        return env.ev(x.t)
    if isinstance(x, (int, float, str, bool, complex)) or x is None:
        return x
    if isinstance(x, (tuple, list)):
        return type(x)(_to_native(v, env) for v in x)
    if isinstance(x, dict):
        return {k: _to_native(v, env) for k, v in x.items()}
    if isinstance(x, (sym.AbstractOp,)) or callable(x) and not hasattr(x, "__dataclass_fields__"):
        return x
    if hasattr(x, "__dict__") and type(x).__module__.startswith(("exponax", "contracts")):
        return CT.make_instance(type(x), {k: _to_native(v, env) for k, v in vars(x).items()})
    return x


def _to_numeric(x, env):
    if isinstance(x, CT.ObjSpec):
        return {k: _to_numeric(v, env) for k, v in x.fields.items()}
    if isinstance(x, CT.Opaque):
        return None
    if isinstance(x, SArr):
        return numeval.to_numpy(x, env)
    if isinstance(x, (values.SInt, values.SFloat)):
        return env.ev(x.t)
    if isinstance(x, (tuple, list)):
        return [_to_numeric(v, env) for v in x]
    if isinstance(x, dict):
        return {k: _to_numeric(v, env) for k, v in x.items()}
    if isinstance(x, slice):
        return [_to_numeric(x.start, env), _to_numeric(x.stop, env), x.step]
    return x


def _diff(got, exp, path="result", tol=TOL):
    """list of (path, detail) where the native value differs from the numeric spec value"""
    out = []
    if exp is None:
        return out
    if isinstance(exp, dict):
        for k, v in exp.items():
            g = got.get(k) if isinstance(got, dict) else getattr(got, k, None)
            if g is None and v is not None and not (isinstance(got, dict) and k in got) and not hasattr(got, k):
                out.append((f"{path}.{k}", "missing"))
            else:
                out += _diff(g, v, f"{path}.{k}", tol)
        return out
    if isinstance(exp, list):
        if isinstance(got, slice):
            got = [got.start, got.stop, got.step]
        if not isinstance(got, (list, tuple)) or len(got) != len(exp):
            return [(path, f"sequence mismatch: {got!r:.80} vs {exp!r:.80}")]
        for j, (g, v) in enumerate(zip(got, exp)):
            out += _diff(g, v, f"{path}[{j}]", tol)
        return out
    if isinstance(exp, np.ndarray):
        try:
            g = np.asarray(got)
        except Exception:
            return [(path, f"not an array: {type(got).__name__}")]
        if g.shape != exp.shape:
            return [(path, f"shape {g.shape} vs spec {exp.shape}")]
        if exp.dtype == bool:
            bad = np.argwhere(g.astype(bool) != exp)
        else:
            with np.errstate(invalid="ignore"):
                err = np.abs(g - exp)
                # (entries that overflow to the same infinity on both sides are equal; NaN in the spec = unconstrained value)
                bad = np.argwhere(~(err <= tol * (1 + np.abs(exp))) & ~np.isnan(exp) & ~(g == exp))
        if len(bad):
            i = tuple(int(v) for v in bad[0])
            return [(path, f"{len(bad)} element(s) differ, e.g. at {i}: native {g[i]!r} vs spec {exp[i]!r}")]
        return out
    if isinstance(exp, (int, float, Fraction)) and not isinstance(exp, bool):
        try:
            gv = float(np.asarray(got))
        except Exception:
            return [(path, f"not a number: {got!r:.60}")]
        if not abs(gv - float(exp)) <= tol * (1 + abs(float(exp))):
            return [(path, f"native {gv!r} vs spec {float(exp)!r}")]
        return out
    if isinstance(exp, (str, bool)):
        if got != exp:
            return [(path, f"native {got!r} vs spec {exp!r}")]
        return out
    return out


SEED = [0]
IN_REAL_CALL = [False]


def draw_native(key, shape, dist, seed=None):
    """the numeric value the spec evaluator gives to the abstract draw RND_<dist>[key](idx), as a numpy array"""
    shape = (shape,) if isinstance(shape, (int, np.integer)) else tuple(int(s) for s in shape)
    nm = f"RND_{dist}[{key.tag}]/{len(shape)}"
    env = numeval.NumEnv(None, SEED[0] if seed is None else seed)
    out = np.empty(shape, dtype=float)
    for idx in itertools.product(*[range(s) for s in shape]):
        out[idx] = env.array_value(nm, idx)
    return out


@contextlib.contextmanager
def native_random():
    """jax.random.split / uniform / normal are replaced, for the duration of a native run, by deterministic stand-ins
    that take the abstract keys of the harness and return exactly the draws the numeric spec evaluator assumes for
    them -- so the real generator code and the spec see the same 'random' numbers.  (What is exercised natively is
    exponax's use of the draws, not jax's generators.)"""
    import jax.numpy as jnp
    import jax.random as jr
    saved = (jr.split, jr.uniform, jr.normal)

    def split(key, num=2):
        if not isinstance(key, ops.Key):
            return saved[0](key, num)
        return ops.KeyArray(key, int(num))

    def uniform(key, shape=(), dtype=None, minval=0.0, maxval=1.0):
        if not isinstance(key, ops.Key):
            return saved[1](key, shape, minval=minval, maxval=maxval)
        return minval + (maxval - minval) * jnp.asarray(draw_native(key, shape, "U"))

    def normal(key, shape=(), dtype=None):
        if not isinstance(key, ops.Key):
            return saved[2](key, shape)
        return jnp.asarray(draw_native(key, shape, "N"))
    jr.split, jr.uniform, jr.normal = split, uniform, normal
    IN_REAL_CALL[0] = True
    try:
        yield
    finally:
        IN_REAL_CALL[0] = False
        jr.split, jr.uniform, jr.normal = saved


def history_of(name):
    """the renaming plan of a history obligation (contracts.verify_contract), recovered from its name"""
    m = re.search(r"\[later call, only '([^']+)' changed", name or "")
    if m:
        return {"only": {m.group(1)}, "suffix": "~2"}
    if "[later call, only the array inputs changed" in (name or ""):
        return {"only": {"<arrays>"}, "suffix": "~a"}
    if "[second call" in (name or ""):
        return {"real": "~r", "int": "", "array": "~r"}
    if "[third call" in (name or ""):
        return {"real": "", "int": "~i", "array": ""}
    return None


def run_native(c, case, concrete, seed=0, history=None):
    """returns dict(confirmed: bool, detail: ..., inputs: ...) or raises.
    history = 'second call' / 'third call': the real function is first called once with the base values (its result is
    discarded), then -- in the module state that call left behind -- with the renamed symbols of the history check
    (contracts.verify_contract); the comparison is about that later call."""
    from . import frame
    SEED[0] = seed
    if getattr(c, "native_overrides", None):
        # values at which a float64 comparison is meaningful for this contract (e.g. a diffusivity that does not flatten the
        # field to rounding noise before it is normalised by its own maximum)
        concrete = dict(concrete, **c.native_overrides)
    eng = ConcreteEngine(f"replay:{c.qualname}[{case.label}]", concrete)
    prev, engine.CURRENT = engine.CURRENT, eng
    sym.CONCRETE_ABSTRACT[0] = True
    smt.NATIVE_REPLAY[0] = True
    try:
        frame.reset()
        if history:
            try:
                b0 = case.build(eng)
                a0, k0 = (b0[0], b0[1]) if isinstance(b0, tuple) and len(b0) >= 2 and isinstance(b0[1], dict) else (b0, {})
                env0 = numeval.NumEnv(ops.interner(eng), seed)
                with contextlib.redirect_stdout(io.StringIO()), native_random():
                    (c.invoke or c.orig)(*_to_native(tuple(a0), env0), **_to_native(dict(k0), env0))
            except Exception:
                pass
            eng.sym_rename = history
        try:
            built = case.build(eng)
        except engine.PathAbort:
            return {"skipped": "requires not satisfied by these values"}
        ctx = {}
        if isinstance(built, tuple) and len(built) == 3 and isinstance(built[1], dict) and isinstance(built[2], dict):
            args, kwargs, ctx = built
        else:
            args, kwargs = built if isinstance(built, tuple) and len(built) == 2 and isinstance(built[1], dict) else (built, {})
        if ctx.get("no_native"):
            return {"skipped": f"not runnable natively: {ctx['no_native']}"}
        if c.spec is None and getattr(c, "native_post", None) is None:
            # a direct property check without a native form: its harness builds symbolic objects itself and cannot be
            # run on real jax -- nothing to replay (never a confirmation)
            return {"skipped": "direct check without a native form of its post-condition"}
        if c.invoke is not None:
            try:
                bargs, bkw = c.bind((None,) + tuple(args), kwargs)
                bargs = bargs[1:]
            except TypeError:
                bargs, bkw = args, kwargs
        else:
            bargs, bkw = c.bind(args, kwargs)
        if c.requires is not None:
            for nm, cond in c.requires(*bargs, **bkw):
                if isinstance(cond, (CT.Assumed, CT.ForAll)):
                    continue
                cv = cond.t if isinstance(cond, values.SBool) else cond
                if not (cv if isinstance(cv, bool) else eng.decide(cv)):
                    return {"skipped": f"requires '{nm}' not satisfied by these values"}
        env = numeval.NumEnv(ops.interner(eng), seed)
        nargs, nkw = _to_native(tuple(args), env), _to_native(dict(kwargs), env)
        # ---- the real function on the real jax
        exc, res = None, None
        try:
            with contextlib.redirect_stdout(io.StringIO()), native_random():
                res = (c.invoke or c.orig)(*nargs, **nkw)
                if "apply" in ctx and callable(res):
                    res = res(*_to_native(tuple(ctx["apply"]), env))
        except CT.EXPECTED_EXC as ex:
            txt = f"{type(ex).__name__}: {ex}"
            if isinstance(ex, TypeError) and any(s in txt for s in ("SArr", "SInt", "SFloat", "symjnp", "is not a valid JAX type", "Key(")):
                # a symbolic object of the harness reached the real jax: the harness is not runnable natively here -- an
                # error of the replay machinery, never evidence about the code
                raise RuntimeError(f"harness not runnable natively: {txt[:200]}") from ex
            exc = ex
        # ---- the spec
        expected_exc = None
        for exc_t, cond in c.raises:
            with engine.no_div_guard():
                cv = cond(*bargs, **bkw)
            cv = cv.t if isinstance(cv, values.SBool) else cv
            if cv if isinstance(cv, bool) else eng.decide(cv):
                expected_exc = exc_t
                break
        info = {"inputs": {k: str(v) for k, v in eng.concrete.items() if not k.startswith("__")}}
        if expected_exc is not None or exc is not None:
            ok = expected_exc is not None and exc is not None and isinstance(exc, expected_exc)
            info.update(confirmed=not ok, detail=f"native raised {type(exc).__name__ if exc else None}: {str(exc)[:120] if exc else ''}; "
                                                  f"contract expects {expected_exc.__name__ if expected_exc else 'a normal return'}")
            return info
        if c.spec is None:
            # direct property check: its native counterpart evaluates the same statement on the real result (numpy)
            npost = getattr(c, "native_post", None)
            if npost is None:
                info.update(confirmed=False, detail="no native form of this post-condition")
                return info
            with native_random():
                fails = npost(res, *nargs, **nkw)
            info.update(confirmed=bool(fails), detail="; ".join(fails[:4]) if fails else "the property's statement holds natively at these inputs")
            return info
        with engine.no_div_guard():
            exp = c.spec(*bargs, **bkw)
            if "apply" in ctx and callable(exp):
                exp = exp(*ctx["apply"])
        env2 = numeval.NumEnv(ops.interner(eng), seed)
        d = _diff(res, _to_numeric(exp, env2), tol=ctx.get("native_tol", TOL))
        info.update(confirmed=bool(d), detail="; ".join(f"{p}: {m}" for p, m in d[:4]) if d else "native result equals the spec")
        return info
    finally:
        engine.CURRENT = prev
        sym.CONCRETE_ABSTRACT[0] = False
        smt.NATIVE_REPLAY[0] = False


def replay_obligation(ob, seed=0, max_battery=16):
    item = ob.get("item") or ""
    m = re.match(r"^(.*?)\[(.*)\]$", item)
    if not m or m.group(1) not in CT.REGISTRY:
        return {"confirmed": False, "note": "level-2 lemma / no contract harness: nothing to replay natively"}
    c = CT.REGISTRY[m.group(1)]
    case = next((k for k in c.cases if k.label == m.group(2)), None)
    if case is None:
        return {"confirmed": False, "note": "case not found"}
    tried = []
    mv = _model_values(ob.get("model"))
    cands = []
    if mv and all(abs(v) <= 12 for k, v in mv.items() if k in ("N", "C", "E", "M", "n", "T", "sub", "A", "B", "Q")):
        cands.append(dict(mv, __src__="solver model"))
    for b in battery(seed, max_battery):
        cands.append(dict(b, __src__="battery"))
    hist = history_of(ob.get("name"))
    t_start = time.time()
    for cand in cands:
        src = cand.pop("__src__")
        if time.time() - t_start > REPLAY_BUDGET_S:
            tried.append({"source": src, "skipped": f"replay budget of {REPLAY_BUDGET_S} s for this obligation used up"})
            break
        if "D=3" in case.label and cand.get("N", 0) > 5:      # three-dimensional grids: keep the numeric spec evaluation affordable
            cand["N"] = Fraction(cand["N"]) - 3
        try:
            r = run_native(c, case, cand, seed, history=hist)
        except Exception as ex:
            tried.append({"source": src, "error": f"{type(ex).__name__}: {str(ex)[:200]}"})
            continue
        r["source"] = src
        if r.get("confirmed") and str(r.get("detail", "")).startswith("native raised") and ob.get("kind") not in ("raises", "bounded"):
            # an exception in the native run is evidence only for an obligation about exceptions; for a value obligation it is
            # far more likely a harness that cannot be run natively than a witness
            r["confirmed"] = False
            r["detail"] = "(not counted: exception in the native run while replaying a value obligation) " + r["detail"]
        if r.get("confirmed"):
            r["tried_before"] = len(tried)
            return r
        tried.append({k: r.get(k) for k in ("source", "skipped", "detail")})
    return {"confirmed": False, "native_battery": f"{len(tried)} configurations tried, none failed natively", "tried": tried[:6]}


def replay_file(path):
    """./check replay <file>: re-run the native replay recorded in a counterexample file"""
    p = path if os.path.isabs(path) else os.path.join(VERIF, path)
    rec = json.load(open(p))
    ob = {"item": rec.get("item"), "model": rec.get("model"), "name": rec.get("obligation")}
    r = replay_obligation(ob)
    print(json.dumps({"obligation": rec.get("obligation"), "native": r}, indent=1, default=str))
    if r.get("confirmed"):
        print(f"VIOLATION property={rec.get('property')} replay={path}")
        return 1
    print("replay: the recorded obligation does not fail natively on this tree")
    return 0
