"""Native replay of a refuted obligation against the real code (real jax.numpy, float64).  Filled in below."""
from __future__ import annotations


def replay_obligation(ob, seed=0):
    return {"confirmed": False, "note": "native replay not available for this obligation kind"}
