"""Check driver: selects the contracts and lemmas of a property, discharges them in a process pool,
applies the verdict policy (DESIGN 2.7), filters known findings, writes evidence."""
from __future__ import annotations

import glob
import hashlib
import importlib
import json
import multiprocessing as mp
import os
import re
import sys
import time
import traceback

VERIF = os.path.dirname(os.path.dirname(os.path.abspath(__file__)))
REPO = os.environ.get("VERIF_REPO", "/repo")
CACHE_DIR = os.environ.get("SYMJNP_CACHE_DIR") or os.path.join(VERIF, ".cache")  # (override: runs against scratch copies keep their own cache)


def setup_paths():
    if VERIF not in sys.path:
        sys.path.insert(0, VERIF)
    # the working tree under test must win over any installed copy
    if REPO in sys.path:
        sys.path.remove(REPO)
    sys.path.insert(0, REPO)
    os.environ.setdefault("JAX_PLATFORMS", "cpu")


def load_all():
    setup_paths()
    import exponax  # noqa
    assert os.path.realpath(os.path.dirname(exponax.__file__)) == os.path.realpath(os.path.join(REPO, "exponax")), \
        f"exponax imported from {exponax.__file__}, expected {REPO}"
    mods = []
    for pkg in ("contracts", "lemmas"):
        for f in sorted(glob.glob(os.path.join(VERIF, pkg, "*.py"))):
            n = os.path.basename(f)[:-3]
            if n.startswith("_"):
                continue
            mods.append(importlib.import_module(f"{pkg}.{n}"))
    return mods


# ------------------------------------------------------------------------------ workers
def _work(item):
    """verify one (contract, case) or one lemma in a worker process"""
    kind, name, label = item
    t0 = time.time()
    from symjnp import contracts as CT
    from symjnp import engine, lemma, shim
    out = {"kind": kind, "name": name, "label": label, "obligations": [], "paths": 0, "error": None,
           "assumptions": [], "shim": [], "wall_s": 0.0}
    try:
        if kind == "contract":
            c = CT.REGISTRY[name]
            engs = CT.verify_contract(c, only_case=label)
        else:
            engs = [lemma.run_lemma(lemma.LEMMAS[name])]
        for e in engs:
            out["paths"] += e.paths
            out["assumptions"] += sorted(e.assumptions_used)
            for o in e.obligations:
                d = o.as_dict()
                if o.smt2:
                    d["smt2"] = o.smt2
                out["obligations"].append(d)
        out["shim"] = sorted(shim.USED)
    except Exception as ex:  # tool limit / crash: never a violation
        out["error"] = f"{type(ex).__name__}: {ex}\n{traceback.format_exc()[-1500:]}"
    out["wall_s"] = time.time() - t0
    out["solver_s"] = engine.STATS["solver_s"]
    return out


def select(prop):
    from symjnp import contracts as CT
    from symjnp import lemma
    items = []
    # a property that has DIRECT checks (contracts/direct.py: its own statement as a post-condition on the real code, whole
    # call tree executed) is decided by those -- the "equals the documented formula" contracts are stronger than such a
    # property and would alarm on changes under which it still holds
    direct = any(prop in c.props and "#" in q for q, c in CT.REGISTRY.items())
    for q, c in CT.REGISTRY.items():
        if prop in c.props and (not direct or "#" in q or prop in getattr(c, "also_direct", ())):
            for case in c.cases:
                items.append(("contract", q, case.label))
    for n, l in lemma.LEMMAS.items():
        if prop in l.props:
            items.append(("lemma", n, None))
    return items


_TREE_KEY = None


def tree_key():
    """content hash of everything a verdict depends on: /repo's exponax sources and /verif's engine, specs, contracts,
    lemmas.  Results of (contract, case) items are cached under this key, so the checks of different properties do
    not re-prove the shared obligations; any edit of any of these files changes the key (the cache can never mask it)."""
    global _TREE_KEY
    if _TREE_KEY is None:
        h = hashlib.sha256()
        roots = [os.path.join(REPO, "exponax")] + [os.path.join(VERIF, d) for d in ("symjnp", "specs", "contracts", "lemmas")]
        for root in roots:
            for dp, dn, fn in sorted(os.walk(root)):
                dn.sort()
                for f in sorted(fn):
                    if f.endswith(".py"):
                        p = os.path.join(dp, f)
                        h.update(p.encode())
                        h.update(open(p, "rb").read())
        h.update(os.environ.get("SYMJNP_TIMEOUT_MS", "").encode())
        _TREE_KEY = h.hexdigest()[:24]
    return _TREE_KEY


def _cache_path(item):
    d = os.path.join(CACHE_DIR, tree_key())
    os.makedirs(d, exist_ok=True)
    return os.path.join(d, hashlib.sha256(repr(item).encode()).hexdigest()[:32] + ".json")


def _work_cached(item):
    if os.environ.get("SYMJNP_NO_CACHE"):
        return _work(item)
    p = _cache_path(item)
    if os.path.exists(p):
        try:
            r = json.load(open(p))
            r["cached"] = True
            return r
        except Exception:
            pass
    r = _work(item)
    if not r["error"] and all(o["status"] == "discharged" for o in r["obligations"]):
        tmp = p + f".{os.getpid()}.tmp"
        json.dump(r, open(tmp, "w"), default=str)
        os.replace(tmp, p)  # only fully discharged items are cached: anything else is always re-examined
    return r


def run_items(items, jobs=None):
    jobs = jobs or min(16, os.cpu_count() or 4)
    tree_key()
    # prune caches of other trees
    cdir = CACHE_DIR
    if os.path.isdir(cdir) and not os.environ.get("SYMJNP_NO_CACHE"):
        import shutil
        for d in os.listdir(cdir):
            if d != tree_key():
                shutil.rmtree(os.path.join(cdir, d), ignore_errors=True)
    if len(items) <= 1 or jobs == 1:
        return [_work_cached(it) for it in items]
    # worker processes are SPAWNED (forking a process that has initialised jax / its threads can deadlock); each worker
    # loads the repo and the contracts itself.  A broken pool or a stuck item never hangs the check: what is left is
    # re-done serially in this process.
    import concurrent.futures as cf
    results = [None] * len(items)
    todo = [i for i, it in enumerate(items) if not _cached_result(it, results, i)]
    if todo:
        try:
            with cf.ProcessPoolExecutor(max_workers=min(jobs, len(todo)), mp_context=mp.get_context("spawn"), initializer=_worker_init) as ex:
                futs = {ex.submit(_work_cached, items[i]): i for i in todo}
                done, pending = cf.wait(futs, timeout=max(900, 8 * len(todo)))
                for f in done:
                    try:
                        results[futs[f]] = f.result()
                    except Exception:
                        pass
                for f in pending:
                    f.cancel()
                if pending:
                    for p in list(getattr(ex, "_processes", {}).values()):
                        p.kill()
        except Exception:
            pass
    for i in range(len(items)):
        if results[i] is None:
            results[i] = _work_cached(items[i])
    return results


def _worker_init():
    os.environ.setdefault("JAX_PLATFORMS", "cpu")
    os.environ.setdefault("JAX_ENABLE_X64", "1")
    load_all()


def _cached_result(item, results, i):
    if os.environ.get("SYMJNP_NO_CACHE"):
        return False
    p = _cache_path(item)
    if os.path.exists(p):
        try:
            r = json.load(open(p))
            r["cached"] = True
            results[i] = r
            return True
        except Exception:
            return False
    return False


# ------------------------------------------------- thorough tier: bounded conformance sweep
CONF_CONFIGS = 5


def _conf_work(job):
    """BOUNDED stand-in (never counted as proved): the harness of one (contract, case) is run natively -- real jax,
    float64 -- on a few concrete configurations and the result of the real function is compared with the spec
    evaluated numerically.  Validates, on this tree, the trusted base of the proof (the jax.numpy shim and the spec
    evaluator) at these points."""
    name, label, seed, k = job
    from symjnp import contracts as CT
    from symjnp import native
    cpath = None
    if not os.environ.get("SYMJNP_NO_CACHE"):   # (same tree, same seed: the sweep of an item shared by several properties is reused)
        cpath = _cache_path(("conformance", name, label, seed, k))
        if os.path.exists(cpath):
            try:
                return dict(json.load(open(cpath)), cached=True)
            except Exception:
                pass
    out = _conf_run(name, label, seed, k)
    if cpath is not None and not out["mismatch"]:
        tmp = cpath + f".{os.getpid()}.tmp"
        json.dump(out, open(tmp, "w"), default=str)
        os.replace(tmp, cpath)
    return out


def _conf_run(name, label, seed, k):
    from symjnp import contracts as CT
    from symjnp import native
    out = {"item": f"{name}[{label}]", "evaluated": 0, "agree": 0, "skipped": 0, "errors": [], "mismatch": []}
    c = CT.REGISTRY[name]
    case = next((x for x in c.cases if x.label == label), None)
    if case is None:
        return out
    for b in native.battery(seed, k):
        b = dict(b)
        if "D=3" in label and b["N"] > 5:      # (three-dimensional grids: keep the numeric evaluation of the spec affordable)
            b["N"] = b["N"] - 3
        try:
            r = native.run_native(c, case, b, seed)
        except Exception as ex:
            out["errors"].append(f"{type(ex).__name__}: {str(ex)[:160]}")
            continue
        if "skipped" in r:
            out["skipped"] += 1
            continue
        out["evaluated"] += 1
        if r.get("confirmed"):
            out["mismatch"].append({"inputs": r.get("inputs"), "detail": r.get("detail")})
        else:
            out["agree"] += 1
    return out


def conformance(items, seed, k=CONF_CONFIGS, jobs=None):
    import concurrent.futures as cf
    jobs = jobs or min(16, os.cpu_count() or 4)
    work = [(n, l, seed, k) for (kind, n, l) in items if kind == "contract"]
    res = []
    try:
        with cf.ProcessPoolExecutor(max_workers=max(1, min(jobs, len(work))), mp_context=mp.get_context("spawn"), initializer=_worker_init) as ex:
            futs = [ex.submit(_conf_work, w) for w in work]
            done, pending = cf.wait(futs, timeout=max(1800, 12 * len(work)))
            for f in done:
                try:
                    res.append(f.result())
                except Exception as e:
                    res.append({"item": "?", "evaluated": 0, "agree": 0, "skipped": 0, "errors": [f"worker: {e}"], "mismatch": []})
            for f in pending:
                f.cancel()
            if pending:
                for p in list(getattr(ex, "_processes", {}).values()):
                    p.kill()
    except Exception as e:
        res.append({"item": "?", "evaluated": 0, "agree": 0, "skipped": 0, "errors": [f"pool: {e}"], "mismatch": []})
    return res


def lean_axioms():
    """thorough tier: the schemes behind the math symbols ER/COS/SIN/SQRT/PI/RPOW (A1-A4, A8) are Lean theorems over
    Mathlib in lemmas/Axioms.lean; re-checked by `lean` (once per content of that file)."""
    import shutil
    import subprocess
    src = os.path.join(VERIF, "lemmas", "Axioms.lean")
    if not os.path.exists(src) or shutil.which("lean") is None:
        return {"checked": False, "reason": "lean or lemmas/Axioms.lean not available"}
    text = open(src).read()
    key = hashlib.sha256(text.encode()).hexdigest()[:16]
    cpath = os.path.join(CACHE_DIR, f"lean_axioms_{key}.json")
    if os.path.exists(cpath) and not os.environ.get("SYMJNP_NO_CACHE"):
        try:
            return dict(json.load(open(cpath)), reused=True)
        except Exception:
            pass
    t0 = time.time()
    try:
        p = subprocess.run(["lean", src], cwd=os.path.join(VERIF, "lemmas"), capture_output=True, text=True, timeout=3600)
        out = {"checked": True, "file": "lemmas/Axioms.lean", "exit": p.returncode, "theorems": len(re.findall(r"^theorem ", text, re.M)),
               "uses_sorry": "sorry" in text or "sorry" in (p.stdout + p.stderr), "output": (p.stdout + p.stderr)[-1500:], "wall_s": round(time.time() - t0, 1)}
    except Exception as ex:
        out = {"checked": False, "reason": f"{type(ex).__name__}: {ex}"}
    if out.get("checked") and out["exit"] == 0:
        os.makedirs(os.path.dirname(cpath), exist_ok=True)
        json.dump(out, open(cpath, "w"))
    return out


# ----------------------------------------------------------------------- known findings
def load_known():
    p = os.path.join(VERIF, "known_findings.json")
    if not os.path.exists(p):
        return {"findings": [], "fixed": []}
    return json.load(open(p))


def match_known(prop, ob, known):
    for f in known.get("findings", []):
        if prop not in f.get("properties", [f.get("property")]):
            continue
        if re.search(f["obligation"], ob["name"]):
            return f
    return None


def _about_rejections(o):
    """C20 is about WHICH inputs are rejected and that accepted ones come back with the right shape -- not about the values
    returned.  Of the obligations in its cone only these count: the `raises` obligations (exception exactly under the
    documented condition, no exception otherwise), the vacuity guards, and the shape / rank / type clauses of `ensures`.
    (A change that only alters returned values fails other properties' checks, not this one.)"""
    if o["kind"] in ("raises", "vacuity", "lemma", "canary"):
        return True
    n = o["name"]
    # the fields of a constructed stepper that DEFINE which state shapes its __call__ accepts (seeded/C20c-2: a constructor
    # that drops `single_channel` when delegating builds a stepper with the wrong channel count, which then rejects the
    # documented state and accepts a wrong one)
    if any(s in n for s in (".num_channels:", ".num_points:", ".num_spatial_dims:")):
        return True
    return any(s in n for s in (": shape ==", ": rank ", ": sequence of length", ": type is", ": is an array", ": mapping with keys", ": is a slice", "result is callable"))


RELEVANT = {"C20": _about_rejections}


# ------------------------------------------------------------------------------- main
def check(prop, tier="quick", seed=0):
    t0 = time.time()
    load_all()
    from symjnp import replay as RP
    items = select(prop)
    if not items:
        print(f"ERROR: no contracts or lemmas registered for {prop}")
        return 3
    results = run_items(items)
    # MODULAR CLOSURE: a proof of a function in the cone used the contracts of its callees (stubs); those contracts are
    # premises of this property's proof, so their own obligations belong to its cone as well (otherwise a change inside a
    # callee that breaks the callee's contract would go unnoticed by this check).  Iterated to a fixed point.
    from symjnp import contracts as _CT
    closure_added = []
    for _round in range(8):
        have = {(k, n) for (k, n, _l) in items}
        callees = {a.split(": ", 1)[1] for r in results for a in r["assumptions"] if a.startswith("callee-by-contract: ")}
        new = sorted(q for q in callees if ("contract", q) not in have and q in _CT.REGISTRY)
        if not new:
            break
        extra = [("contract", q, case.label) for q in new for case in _CT.REGISTRY[q].cases]
        closure_added += new
        items += extra
        results += run_items(extra)
    # what an obligation must be about to count for THIS property (None: everything in the cone counts)
    relevant = RELEVANT.get(prop)
    excluded = [0]

    def apply_relevance(rs):
        if relevant is None:
            return
        for r in rs:
            if r.get("_filtered"):
                continue
            n0 = len(r["obligations"])
            r["obligations"] = [o for o in r["obligations"] if relevant(o)]
            excluded[0] += n0 - len(r["obligations"])
            r["_filtered"] = True
    apply_relevance(results)
    # items with an obligation that is not discharged are re-examined once, serially and with a 3x time budget, so
    # that a verdict never depends on how busy the machine was (a timeout must not turn into an alarm)
    # (only UNDECIDED obligations and tool errors are worth a second look: a refutation is a model, not a timeout)
    redo = [i for i, r in enumerate(results) if r["error"] or any(o["status"] not in ("discharged", "refuted") for o in r["obligations"])]
    if redo and len(redo) <= 60:
        from symjnp import engine as _eng
        old = _eng.TSCALE
        _eng.TSCALE = old * 3
        os.environ["SYMJNP_TSCALE"] = str(old * 3)     # (spawned workers read the budget multiplier from the environment)
        try:
            if len(redo) <= 2:
                new = [_work(items[i]) for i in redo]
            else:
                new = run_items([items[i] for i in redo], jobs=min(8, len(redo)))   # fewer workers than cores: budget, not load, decides
            for i, r in zip(redo, new):
                results[i] = r
                results[i]["retried"] = True
        finally:
            _eng.TSCALE = old
            os.environ["SYMJNP_TSCALE"] = str(old)
        apply_relevance(results)
    known = load_known()
    obligations = [dict(o, item=f"{r['name']}[{r['label']}]" if r["label"] else r["name"]) for r in results for o in r["obligations"]]
    errors = [r for r in results if r["error"]]
    n_ob = len(obligations)
    discharged = [o for o in obligations if o["status"] == "discharged"]
    refuted = [o for o in obligations if o["status"] == "refuted"]
    unknown = [o for o in obligations if o["status"] not in ("discharged", "refuted")]
    known_hits, violations = {}, []
    for o in refuted:
        f = match_known(prop, o, known)
        if f is not None:
            known_hits.setdefault(f["id"], (f, []))[1].append(o)
        else:
            violations.append(o)
    lines = []
    for fid, (f, obs) in sorted(known_hits.items()):
        lines.append(f"KNOWN-FINDING: property={prop} {fid} {f['what']} ({len(obs)} obligation(s), e.g. {obs[0]['name']})")
    vio_lines = []
    os.makedirs(os.path.join(VERIF, "replays"), exist_ok=True)
    seen_keys = set()
    for o in violations:
        key = re.sub(r"\[.*?\]", "", o["name"])
        if key in seen_keys and len(vio_lines) >= 8:
            continue
        seen_keys.add(key)
        path = RP.write_replay(prop, o, seed=seed)
        tail = "" if RP.last_confirmed(path) else " no-failing-input-found"
        vio_lines.append(f"VIOLATION property={prop} replay={path} obligation=\"{o['name']}\"{tail}")
    # undecided obligations (solver gave up): the same harness is run natively on the real code; a native disagreement
    # with the spec is a violation with a replayable input -- if none is found the obligation stays undecided (exit 2)
    still_unknown, seen_items = [], set()
    for o in unknown:
        if o.get("item") in seen_items or len(seen_items) >= 12:
            still_unknown.append(o)
            continue
        seen_items.add(o.get("item"))
        path = RP.write_replay(prop, o, seed=seed)
        if RP.last_confirmed(path):
            violations.append(o)
            vio_lines.append(f"VIOLATION property={prop} replay={path} obligation=\"{o['name']}\" (undecided by the solver, failing input found natively)")
        else:
            still_unknown.append(o)
    unknown = still_unknown
    # tool limits (code outside the modelled subset): bounded stand-in -- the native battery of the same harness on the
    # real code; a native disagreement with the spec is a violation with a replayable input, a pass proves nothing
    standins = []
    for r in errors[:12]:
        if r["kind"] != "contract":
            continue
        ob = {"name": f"{r['name']}[{r['label']}]::bounded stand-in (symbolic execution hit a tool limit: {r['error'].splitlines()[0][:120]})",
              "kind": "bounded", "item": f"{r['name']}[{r['label']}]", "model": None, "backend": "native battery (real jax, float64)", "smt2": r["error"][:4000]}
        path = RP.write_replay(prop, ob, seed=seed)
        ok = RP.last_confirmed(path)
        standins.append({"item": ob["item"], "native_failure_found": ok, "replay": path})
        if ok:
            violations.append(ob)
            vio_lines.append(f"VIOLATION property={prop} replay={path} obligation=\"{ob['name']}\"")
    for ln in lines + vio_lines:
        print(ln)
    conf = lean = None
    if tier == "thorough":
        lean = lean_axioms()
        print(f"{prop}: lean lemmas/Axioms.lean: {json.dumps({k: v for k, v in lean.items() if k != 'output'})}")
        cres = conformance(items, seed)
        mism = [dict(m, item=r["item"]) for r in cres for m in r["mismatch"]]
        conf = {"label": "BOUNDED (not proof): real jax float64 vs numerically evaluated spec",
                "bound": f"{CONF_CONFIGS} configurations per (contract, case) from the fixed battery: N in 3..10, L in {{1,3,25/4,7/2}}, dt in {{.1,.7,.3}}, "
                         f"other named reals seeded in [-1.5,1.5] (VERIF_SEED={seed}); relative tolerance 1e-7",
                "cases": len(cres), "evaluations": sum(r["evaluated"] for r in cres), "agree": sum(r["agree"] for r in cres),
                "skipped_requires_not_met": sum(r["skipped"] for r in cres),
                "harness_errors": sum(len(r["errors"]) for r in cres),
                "harness_error_samples": sorted({e for r in cres for e in r["errors"]})[:8],
                "mismatch_count": len(mism), "mismatches": mism[:20]}
        for m in mism[:10]:
            print(f"CONFORMANCE-MISMATCH item={m['item']} inputs={json.dumps(m['inputs'])[:300]} detail={str(m['detail'])[:300]}")
        print(f"{prop}: bounded conformance sweep: cases={conf['cases']} evaluations={conf['evaluations']} agree={conf['agree']} "
              f"skipped={conf['skipped_requires_not_met']} harness_errors={conf['harness_errors']} mismatches={len(mism)}")
    funcs = {}
    for r in results:
        if r["kind"] != "contract":
            continue
        d = funcs.setdefault(r["name"], {"cases": 0, "paths": 0, "obligations": 0, "discharged": 0})
        d["cases"] += 1
        d["paths"] += r["paths"]
        d["obligations"] += len(r["obligations"])
        d["discharged"] += sum(1 for o in r["obligations"] if o["status"] == "discharged")
    shim_used = sorted({s for r in results for s in r["shim"]})
    assumptions = sorted({a for r in results for a in r["assumptions"]})
    samples = []
    with_text = [o for o in obligations if o.get("smt2")]
    # (written-out obligations: prefer whole-array post-conditions over trivial scalar field equalities)
    with_text.sort(key=lambda o: (0 if "every element" in o["name"] else 1 if o["kind"] in ("invariant", "raises", "requires") else 2, abs(len(o["smt2"]) - 1500)))
    for o in with_text[:3]:
        samples.append({"obligation": o["name"], "kind": o["kind"], "status": o["status"], "backend": o.get("backend"), "smt2": o["smt2"][:4000]})
    lem = [r for r in results if r["kind"] == "lemma"]
    from symjnp import lemma as LM
    ev = {
        "property_id": prop, "tier": tier, "seed": int(seed), "level": "proof",
        "coverage": {
            "obligations": n_ob - len([o for o in refuted if match_known(prop, o, known)]),
            "discharged": len(discharged),
            "checker_cmd": f"./check {prop} --tier {tier}",
            "trusted_base": ["z3 " + _z3v(), "CPython + equinox + jax.tree_util run natively",
                             "exact real/complex arithmetic in place of IEEE floats (DESIGN 2.9)"] + [f"shim: {s}" for s in shim_used],
            "samples": samples,
            "functions_under_contract": funcs,
            "lemmas": {r["name"]: {"obligations": len(r["obligations"]),
                                   "discharged": sum(1 for o in r["obligations"] if o["status"] == "discharged"),
                                   "assumes": LM.LEMMAS[r["name"]].assumes} for r in lem},
            "paths_explored": sum(r["paths"] for r in results),
            "items": len(items),
            "items_reused_from_same_tree_cache": sum(1 for r in results if r.get("cached")),
            "tree_key": tree_key(),
            "contracts_added_by_modular_closure": sorted(set(closure_added)),
            "obligations_in_the_cone_not_about_this_property": excluded[0],
            "refuted": len(refuted), "undecided": len(unknown), "tool_errors": len(errors),
            "known_findings_reported": sorted(known_hits),
            "bounded_standins": standins,
            "vacuity_guards": sum(1 for o in obligations if o["kind"] == "vacuity"),
            "solver_time_s": round(sum(r.get("solver_s", 0) for r in results), 2),
            "by_kind": _count_by(obligations, "kind"),
            "backends": _count_by(obligations, "backend"),
            "repo": REPO,
        },
        "assumptions": assumptions + sorted({a for r in lem for a in LM.LEMMAS[r["name"]].assumes}),
        "wall_s": round(time.time() - t0, 2),
        "violations": len(violations),
    }
    if conf is not None:
        ev["coverage"]["bounded_conformance_sweep"] = conf
        ev["coverage"]["math_axioms_rechecked_by_lean"] = lean
    evdir = os.environ.get("SYMJNP_EVIDENCE_DIR") or os.path.join(VERIF, "evidence")  # (override: runs on scratch copies)
    os.makedirs(evdir, exist_ok=True)
    json.dump(ev, open(os.path.join(evdir, f"{prop}.json"), "w"), indent=1, default=str)
    print(f"{prop}: items={len(items)} obligations={n_ob} discharged={len(discharged)} refuted={len(refuted)} "
          f"(known={sum(len(v[1]) for v in known_hits.values())}) undecided={len(unknown)} errors={len(errors)} wall={time.time() - t0:.1f}s")
    if violations:
        return 1
    if errors:
        for r in errors[:5]:
            print(f"TOOL-ERROR {r['name']}[{r['label']}]: {r['error'][:800]}")
        return 3
    if unknown:
        for o in unknown[:10]:
            print(f"UNDECIDED {o['name']}")
        return 2
    if lean is not None and lean.get("checked") and (lean.get("exit") != 0 or lean.get("uses_sorry")):
        print(f"TOOL-ERROR lean rejected lemmas/Axioms.lean: {lean.get('output', '')[-600:]}")
        return 3
    if conf is not None and conf["mismatches"]:
        # every obligation is discharged in exact arithmetic, yet the real code and the spec differ natively at a concrete
        # input: the trusted base (shim / spec evaluator) or floating point is involved.  A handful of isolated cases is what
        # ill-conditioned float64 inputs produce (a field diffused to rounding noise and then normalised by its own maximum);
        # they are listed, not fatal.  Many of them mean the numeric evaluator or the shim is wrong: checker inconsistency.
        if conf["mismatch_count"] >= 5:
            print("INCONSISTENT: proof discharged but the bounded native sweep disagrees systematically (see CONFORMANCE-MISMATCH lines)")
            return 3
        print(f"NOTE: {conf['mismatch_count']} isolated native mismatch(es) (float64, listed above and in the evidence); every obligation is discharged")
    return 0


def _z3v():
    import z3
    return z3.get_version_string()


def _count_by(obs, k):
    d = {}
    for o in obs:
        d[o[k]] = d.get(o[k], 0) + 1
    return d
