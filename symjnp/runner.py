"""Check driver: selects the contracts and lemmas of a property, discharges them in a process pool,
applies the verdict policy (DESIGN 2.7), filters known findings, writes evidence."""
from __future__ import annotations

import glob
import hashlib
import importlib
import json
import multiprocessing as mp
import os
import re
import sys
import time
import traceback

VERIF = os.path.dirname(os.path.dirname(os.path.abspath(__file__)))
REPO = os.environ.get("VERIF_REPO", "/repo")


def setup_paths():
    if VERIF not in sys.path:
        sys.path.insert(0, VERIF)
    # the working tree under test must win over any installed copy
    if REPO in sys.path:
        sys.path.remove(REPO)
    sys.path.insert(0, REPO)
    os.environ.setdefault("JAX_PLATFORMS", "cpu")


def load_all():
    setup_paths()
    import exponax  # noqa
    assert os.path.realpath(os.path.dirname(exponax.__file__)) == os.path.realpath(os.path.join(REPO, "exponax")), \
        f"exponax imported from {exponax.__file__}, expected {REPO}"
    mods = []
    for pkg in ("contracts", "lemmas"):
        for f in sorted(glob.glob(os.path.join(VERIF, pkg, "*.py"))):
            n = os.path.basename(f)[:-3]
            if n.startswith("_"):
                continue
            mods.append(importlib.import_module(f"{pkg}.{n}"))
    return mods


# ------------------------------------------------------------------------------ workers
def _work(item):
    """verify one (contract, case) or one lemma in a worker process"""
    kind, name, label = item
    t0 = time.time()
    from symjnp import contracts as CT
    from symjnp import engine, lemma, shim
    out = {"kind": kind, "name": name, "label": label, "obligations": [], "paths": 0, "error": None,
           "assumptions": [], "shim": [], "wall_s": 0.0}
    try:
        if kind == "contract":
            c = CT.REGISTRY[name]
            engs = CT.verify_contract(c, only_case=label)
        else:
            engs = [lemma.run_lemma(lemma.LEMMAS[name])]
        for e in engs:
            out["paths"] += e.paths
            out["assumptions"] += sorted(e.assumptions_used)
            for o in e.obligations:
                d = o.as_dict()
                if o.smt2:
                    d["smt2"] = o.smt2
                out["obligations"].append(d)
        out["shim"] = sorted(shim.USED)
    except Exception as ex:  # tool limit / crash: never a violation
        out["error"] = f"{type(ex).__name__}: {ex}\n{traceback.format_exc()[-1500:]}"
    out["wall_s"] = time.time() - t0
    out["solver_s"] = engine.STATS["solver_s"]
    return out


def select(prop):
    from symjnp import contracts as CT
    from symjnp import lemma
    items = []
    for q, c in CT.REGISTRY.items():
        if prop in c.props:
            for case in c.cases:
                items.append(("contract", q, case.label))
    for n, l in lemma.LEMMAS.items():
        if prop in l.props:
            items.append(("lemma", n, None))
    return items


_TREE_KEY = None


def tree_key():
    """content hash of everything a verdict depends on: /repo's exponax sources and /verif's engine, specs, contracts,
    lemmas.  Results of (contract, case) items are cached under this key, so the checks of different properties do
    not re-prove the shared obligations; any edit of any of these files changes the key (the cache can never mask it)."""
    global _TREE_KEY
    if _TREE_KEY is None:
        h = hashlib.sha256()
        roots = [os.path.join(REPO, "exponax")] + [os.path.join(VERIF, d) for d in ("symjnp", "specs", "contracts", "lemmas")]
        for root in roots:
            for dp, dn, fn in sorted(os.walk(root)):
                dn.sort()
                for f in sorted(fn):
                    if f.endswith(".py"):
                        p = os.path.join(dp, f)
                        h.update(p.encode())
                        h.update(open(p, "rb").read())
        h.update(os.environ.get("SYMJNP_TIMEOUT_MS", "").encode())
        _TREE_KEY = h.hexdigest()[:24]
    return _TREE_KEY


def _cache_path(item):
    d = os.path.join(VERIF, ".cache", tree_key())
    os.makedirs(d, exist_ok=True)
    return os.path.join(d, hashlib.sha256(repr(item).encode()).hexdigest()[:32] + ".json")


def _work_cached(item):
    if os.environ.get("SYMJNP_NO_CACHE"):
        return _work(item)
    p = _cache_path(item)
    if os.path.exists(p):
        try:
            r = json.load(open(p))
            r["cached"] = True
            return r
        except Exception:
            pass
    r = _work(item)
    if not r["error"] and all(o["status"] == "discharged" for o in r["obligations"]):
        tmp = p + f".{os.getpid()}.tmp"
        json.dump(r, open(tmp, "w"), default=str)
        os.replace(tmp, p)  # only fully discharged items are cached: anything else is always re-examined
    return r


def run_items(items, jobs=None):
    jobs = jobs or min(16, os.cpu_count() or 4)
    tree_key()
    # prune caches of other trees
    cdir = os.path.join(VERIF, ".cache")
    if os.path.isdir(cdir) and not os.environ.get("SYMJNP_NO_CACHE"):
        import shutil
        for d in os.listdir(cdir):
            if d != tree_key():
                shutil.rmtree(os.path.join(cdir, d), ignore_errors=True)
    if len(items) <= 1 or jobs == 1:
        return [_work_cached(it) for it in items]
    # worker processes are SPAWNED (forking a process that has initialised jax / its threads can deadlock); each worker
    # loads the repo and the contracts itself.  A broken pool or a stuck item never hangs the check: what is left is
    # re-done serially in this process.
    import concurrent.futures as cf
    results = [None] * len(items)
    todo = [i for i, it in enumerate(items) if not _cached_result(it, results, i)]
    if todo:
        try:
            with cf.ProcessPoolExecutor(max_workers=min(jobs, len(todo)), mp_context=mp.get_context("spawn"), initializer=_worker_init) as ex:
                futs = {ex.submit(_work_cached, items[i]): i for i in todo}
                done, pending = cf.wait(futs, timeout=max(900, 8 * len(todo)))
                for f in done:
                    try:
                        results[futs[f]] = f.result()
                    except Exception:
                        pass
                for f in pending:
                    f.cancel()
                if pending:
                    for p in list(getattr(ex, "_processes", {}).values()):
                        p.kill()
        except Exception:
            pass
    for i in range(len(items)):
        if results[i] is None:
            results[i] = _work_cached(items[i])
    return results


def _worker_init():
    os.environ.setdefault("JAX_PLATFORMS", "cpu")
    os.environ.setdefault("JAX_ENABLE_X64", "1")
    load_all()


def _cached_result(item, results, i):
    if os.environ.get("SYMJNP_NO_CACHE"):
        return False
    p = _cache_path(item)
    if os.path.exists(p):
        try:
            r = json.load(open(p))
            r["cached"] = True
            results[i] = r
            return True
        except Exception:
            return False
    return False


# ----------------------------------------------------------------------- known findings
def load_known():
    p = os.path.join(VERIF, "known_findings.json")
    if not os.path.exists(p):
        return {"findings": [], "fixed": []}
    return json.load(open(p))


def match_known(prop, ob, known):
    for f in known.get("findings", []):
        if prop not in f.get("properties", [f.get("property")]):
            continue
        if re.search(f["obligation"], ob["name"]):
            return f
    return None


# ------------------------------------------------------------------------------- main
def check(prop, tier="quick", seed=0):
    t0 = time.time()
    load_all()
    from symjnp import replay as RP
    items = select(prop)
    if not items:
        print(f"ERROR: no contracts or lemmas registered for {prop}")
        return 3
    results = run_items(items)
    # items with an obligation that is not discharged are re-examined once, serially and with a 3x time budget, so
    # that a verdict never depends on how busy the machine was (a timeout must not turn into an alarm)
    redo = [i for i, r in enumerate(results) if r["error"] or any(o["status"] != "discharged" for o in r["obligations"])]
    if redo and len(redo) <= 40:
        from symjnp import engine as _eng
        old = _eng.TSCALE
        _eng.TSCALE = old * 3
        try:
            for i in redo:
                results[i] = _work(items[i])
                results[i]["retried"] = True
        finally:
            _eng.TSCALE = old
    known = load_known()
    obligations = [dict(o, item=f"{r['name']}[{r['label']}]" if r["label"] else r["name"]) for r in results for o in r["obligations"]]
    errors = [r for r in results if r["error"]]
    n_ob = len(obligations)
    discharged = [o for o in obligations if o["status"] == "discharged"]
    refuted = [o for o in obligations if o["status"] == "refuted"]
    unknown = [o for o in obligations if o["status"] not in ("discharged", "refuted")]
    known_hits, violations = {}, []
    for o in refuted:
        f = match_known(prop, o, known)
        if f is not None:
            known_hits.setdefault(f["id"], (f, []))[1].append(o)
        else:
            violations.append(o)
    lines = []
    for fid, (f, obs) in sorted(known_hits.items()):
        lines.append(f"KNOWN-FINDING: property={prop} {fid} {f['what']} ({len(obs)} obligation(s), e.g. {obs[0]['name']})")
    vio_lines = []
    os.makedirs(os.path.join(VERIF, "replays"), exist_ok=True)
    seen_keys = set()
    for o in violations:
        key = re.sub(r"\[.*?\]", "", o["name"])
        if key in seen_keys and len(vio_lines) >= 8:
            continue
        seen_keys.add(key)
        path = RP.write_replay(prop, o, seed=seed)
        tail = "" if RP.last_confirmed(path) else " no-failing-input-found"
        vio_lines.append(f"VIOLATION property={prop} replay={path} obligation=\"{o['name']}\"{tail}")
    # undecided obligations (solver gave up): the same harness is run natively on the real code; a native disagreement
    # with the spec is a violation with a replayable input -- if none is found the obligation stays undecided (exit 2)
    still_unknown, seen_items = [], set()
    for o in unknown:
        if o.get("item") in seen_items or len(seen_items) >= 12:
            still_unknown.append(o)
            continue
        seen_items.add(o.get("item"))
        path = RP.write_replay(prop, o, seed=seed)
        if RP.last_confirmed(path):
            violations.append(o)
            vio_lines.append(f"VIOLATION property={prop} replay={path} obligation=\"{o['name']}\" (undecided by the solver, failing input found natively)")
        else:
            still_unknown.append(o)
    unknown = still_unknown
    # tool limits (code outside the modelled subset): bounded stand-in -- the native battery of the same harness on the
    # real code; a native disagreement with the spec is a violation with a replayable input, a pass proves nothing
    standins = []
    for r in errors[:12]:
        if r["kind"] != "contract":
            continue
        ob = {"name": f"{r['name']}[{r['label']}]::bounded stand-in (symbolic execution hit a tool limit: {r['error'].splitlines()[0][:120]})",
              "kind": "bounded", "item": f"{r['name']}[{r['label']}]", "model": None, "backend": "native battery (real jax, float64)", "smt2": r["error"][:4000]}
        path = RP.write_replay(prop, ob, seed=seed)
        ok = RP.last_confirmed(path)
        standins.append({"item": ob["item"], "native_failure_found": ok, "replay": path})
        if ok:
            violations.append(ob)
            vio_lines.append(f"VIOLATION property={prop} replay={path} obligation=\"{ob['name']}\"")
    for ln in lines + vio_lines:
        print(ln)
    funcs = {}
    for r in results:
        if r["kind"] != "contract":
            continue
        d = funcs.setdefault(r["name"], {"cases": 0, "paths": 0, "obligations": 0, "discharged": 0})
        d["cases"] += 1
        d["paths"] += r["paths"]
        d["obligations"] += len(r["obligations"])
        d["discharged"] += sum(1 for o in r["obligations"] if o["status"] == "discharged")
    shim_used = sorted({s for r in results for s in r["shim"]})
    assumptions = sorted({a for r in results for a in r["assumptions"]})
    samples = []
    for o in obligations:
        if o.get("smt2") and len(samples) < 3:
            samples.append({"obligation": o["name"], "status": o["status"], "smt2": o["smt2"][:4000]})
    lem = [r for r in results if r["kind"] == "lemma"]
    from symjnp import lemma as LM
    ev = {
        "property_id": prop, "tier": tier, "seed": int(seed), "level": "proof",
        "coverage": {
            "obligations": n_ob - len([o for o in refuted if match_known(prop, o, known)]),
            "discharged": len(discharged),
            "checker_cmd": f"./check {prop} --tier {tier}",
            "trusted_base": ["z3 " + _z3v(), "CPython + equinox + jax.tree_util run natively",
                             "exact real/complex arithmetic in place of IEEE floats (DESIGN 2.9)"] + [f"shim: {s}" for s in shim_used],
            "samples": samples,
            "functions_under_contract": funcs,
            "lemmas": {r["name"]: {"obligations": len(r["obligations"]),
                                   "discharged": sum(1 for o in r["obligations"] if o["status"] == "discharged"),
                                   "assumes": LM.LEMMAS[r["name"]].assumes} for r in lem},
            "paths_explored": sum(r["paths"] for r in results),
            "items": len(items),
            "items_reused_from_same_tree_cache": sum(1 for r in results if r.get("cached")),
            "tree_key": tree_key(),
            "refuted": len(refuted), "undecided": len(unknown), "tool_errors": len(errors),
            "known_findings_reported": sorted(known_hits),
            "bounded_standins": standins,
            "vacuity_guards": sum(1 for o in obligations if o["kind"] == "vacuity"),
            "solver_time_s": round(sum(r.get("solver_s", 0) for r in results), 2),
            "by_kind": _count_by(obligations, "kind"),
            "backends": _count_by(obligations, "backend"),
            "repo": REPO,
        },
        "assumptions": assumptions + sorted({a for r in lem for a in LM.LEMMAS[r["name"]].assumes}),
        "wall_s": round(time.time() - t0, 2),
        "violations": len(violations),
    }
    evdir = os.environ.get("SYMJNP_EVIDENCE_DIR") or os.path.join(VERIF, "evidence")  # (override: runs on scratch copies)
    os.makedirs(evdir, exist_ok=True)
    json.dump(ev, open(os.path.join(evdir, f"{prop}.json"), "w"), indent=1, default=str)
    print(f"{prop}: items={len(items)} obligations={n_ob} discharged={len(discharged)} refuted={len(refuted)} "
          f"(known={sum(len(v[1]) for v in known_hits.values())}) undecided={len(unknown)} errors={len(errors)} wall={time.time() - t0:.1f}s")
    if violations:
        return 1
    if errors:
        for r in errors[:5]:
            print(f"TOOL-ERROR {r['name']}[{r['label']}]: {r['error'][:800]}")
        return 3
    if unknown:
        for o in unknown[:10]:
            print(f"UNDECIDED {o['name']}")
        return 2
    return 0


def _z3v():
    import z3
    return z3.get_version_string()


def _count_by(obs, k):
    d = {}
    for o in obs:
        d[o[k]] = d.get(o[k], 0) + 1
    return d
