"""Symbolic python-level values: SBool, SInt, SFloat and the index-lambda array SArr."""
from __future__ import annotations

import itertools
from fractions import Fraction

import z3

from . import engine, smt
from .smt import CX, OutsideSubset


# =============================================================================== scalars
class SBool:
    __slots__ = ("t",)

    def __init__(self, t):
        self.t = t

    def __bool__(self):
        return engine.cur().decide(self.t)

    def _b(self):
        return self.t

    def __and__(self, o):
        if isinstance(o, SArr):
            return NotImplemented
        return mk_bool(smt.band(self.t, as_b(o)))

    __rand__ = __and__

    def __or__(self, o):
        if isinstance(o, SArr):
            return NotImplemented
        return mk_bool(smt.bor(self.t, as_b(o)))

    __ror__ = __or__

    def __invert__(self):
        return mk_bool(smt.bnot(self.t))

    def __repr__(self):
        return f"SBool({self.t})"


def mk_bool(t):
    if isinstance(t, bool):
        return t
    t = z3.simplify(t)
    if z3.is_true(t):
        return True
    if z3.is_false(t):
        return False
    return SBool(t)


def as_b(x):
    if isinstance(x, bool):
        return x
    if isinstance(x, SBool):
        return x.t
    if isinstance(x, z3.BoolRef):
        return x
    raise OutsideSubset(f"as_b({type(x).__name__})")


def _scalar_term(x):
    """python scalar / symbolic scalar -> R-value, or None if x is not a real scalar"""
    if isinstance(x, (SInt, SFloat)):
        return x.t
    if isinstance(x, bool):
        return int(x)
    if isinstance(x, (int, Fraction)):
        return x
    if isinstance(x, float):
        return smt.lift_float(x)
    if isinstance(x, z3.ArithRef):
        return x
    return None


def mk_int(t):
    if isinstance(t, int):
        return t
    if isinstance(t, Fraction):
        if t.denominator != 1:
            raise OutsideSubset("non-integer where an integer is required")
        return int(t)
    c = smt.conc_of(t)
    if c is not None:
        return int(c)
    ts = z3.simplify(t)
    c = smt.conc_of(ts)
    if c is not None:
        return int(c)
    return SInt(ts)


def mk_num(t):
    """R-value -> python-level scalar (int / SInt for integer sorted, float-like otherwise)"""
    if isinstance(t, int):
        return t
    if isinstance(t, Fraction):
        return SFloat(t) if t.denominator != 1 else int(t)
    if smt.is_int_sorted(t):
        return mk_int(t)
    return SFloat(t)


class _ScalarOps:
    """arithmetic shared by SInt and SFloat; result type follows python (int op int -> int, / -> float)"""

    def _bin(self, o, f, intres):
        if isinstance(o, SArr):
            return NotImplemented
        if isinstance(o, complex):
            return NotImplemented
        b = _scalar_term(o)
        if b is None:
            return NotImplemented
        r = f(self.t, b)
        if intres and smt.is_int_sorted(self.t) and smt.is_int_sorted(b) and isinstance(self, SInt) and not isinstance(o, (float, SFloat)):
            return mk_int(r)
        return SFloat(r)

    def _rbin(self, o, f, intres):
        if isinstance(o, complex):
            return NotImplemented
        b = _scalar_term(o)
        if b is None:
            return NotImplemented
        r = f(b, self.t)
        if intres and smt.is_int_sorted(self.t) and smt.is_int_sorted(b) and isinstance(self, SInt) and not isinstance(o, (float, SFloat)):
            return mk_int(r)
        return SFloat(r)

    def __add__(self, o): return self._bin(o, smt.radd, True)
    def __radd__(self, o): return self._rbin(o, smt.radd, True)
    def __sub__(self, o): return self._bin(o, smt.rsub, True)
    def __rsub__(self, o): return self._rbin(o, smt.rsub, True)
    def __mul__(self, o): return self._bin(o, smt.rmul, True)
    def __rmul__(self, o): return self._rbin(o, smt.rmul, True)
    def __truediv__(self, o): return self._bin(o, smt.rdiv, False)
    def __rtruediv__(self, o): return self._rbin(o, smt.rdiv, False)
    def __floordiv__(self, o): return self._bin(o, smt.rfloordiv, True)
    def __rfloordiv__(self, o): return self._rbin(o, smt.rfloordiv, True)
    def __mod__(self, o): return self._bin(o, smt.rmod, True)
    def __rmod__(self, o): return self._rbin(o, smt.rmod, True)

    def __pow__(self, o):
        if isinstance(o, SArr):
            return NotImplemented
        if isinstance(o, int) and not isinstance(o, bool):
            r = smt.rpow_int(self.t, o)
            return mk_int(r) if (isinstance(self, SInt) and o >= 0) else SFloat(r)
        p = _scalar_term(o)
        if p is None:
            return NotImplemented
        return SFloat(smt.rpow_real(self.t, p))

    def __rpow__(self, o):
        b = _scalar_term(o)
        if b is None:
            return NotImplemented
        if smt.is_conc(self.t) and Fraction(self.t).denominator == 1:
            return mk_num(smt.rpow_int(b, int(self.t)))
        return SFloat(smt.rpow_real(b, self.t))

    def __neg__(self):
        return type(self)._mk(smt.rneg(self.t))

    def __pos__(self):
        return self

    def __abs__(self):
        return type(self)._mk(smt.rabs(self.t))

    def _cmp(self, o, f):
        if isinstance(o, SArr):
            return NotImplemented
        b = _scalar_term(o)
        if b is None:
            return NotImplemented
        return mk_bool(f(self.t, b))

    def __lt__(self, o): return self._cmp(o, smt.rlt)
    def __le__(self, o): return self._cmp(o, smt.rle)
    def __gt__(self, o): return self._cmp(o, smt.rgt)
    def __ge__(self, o): return self._cmp(o, smt.rge)

    def __eq__(self, o):
        if o is None or isinstance(o, str):
            return False
        return self._cmp(o, smt.req)

    def __ne__(self, o):
        if o is None or isinstance(o, str):
            return True
        return self._cmp(o, smt.rne)

    def __hash__(self):
        return hash(("sym", self.t.get_id() if isinstance(self.t, z3.ExprRef) else self.t))

    def _sym_term(self):
        return self.t


class SInt(_ScalarOps):
    """symbolic python int (NOT an int subclass: native uses raise instead of leaking)"""
    __slots__ = ("t",)

    def __init__(self, t):
        self.t = t

    @staticmethod
    def _mk(t):
        return mk_int(t)

    def __index__(self):
        raise OutsideSubset("symbolic integer used natively (range / list repeat / native index)")

    __int__ = __index__

    def __float__(self):
        raise OutsideSubset("float() of a symbolic integer")

    def __bool__(self):
        return engine.cur().decide(smt.rne(self.t, 0))

    def __repr__(self):
        return f"SInt({self.t})"

    __str__ = __repr__

    def __format__(self, spec):
        return repr(self)


class SFloat(_ScalarOps, float):
    """symbolic python float; subclasses float so that isinstance(x, float) dispatch in the repo
    takes the scalar branch.  The native payload is NaN: a leak into native float arithmetic produces NaN,
    which the shim rejects (OutsideSubset) when it next sees it."""

    def __new__(cls, t):
        o = float.__new__(cls, float("nan"))
        o.t = t
        return o

    @staticmethod
    def _mk(t):
        return SFloat(t)

    def __float__(self):
        raise OutsideSubset("float() of a symbolic float")

    def __int__(self):
        raise OutsideSubset("int() of a symbolic float")

    def __bool__(self):
        return engine.cur().decide(smt.rne(self.t, 0))

    def __repr__(self):
        return f"SFloat({self.t})"

    __str__ = __repr__

    def __format__(self, spec):
        return repr(self)

    # complex constants times symbolic floats: route through a 0-d array
    def __complex__(self):
        raise OutsideSubset("complex() of a symbolic float")

    @property
    def real(self):
        return self

    @property
    def imag(self):
        return 0.0

    shape = ()
    ndim = 0


# ================================================================================ arrays
def dim_term(d):
    return d.t if isinstance(d, SInt) else d


def is_one(d):
    return isinstance(d, int) and d == 1


def dims_equal(a, b):
    """decide (possibly forking) whether two dims are equal"""
    if isinstance(a, int) and isinstance(b, int):
        return a == b
    return bool(mk_bool(smt.req(dim_term(a), dim_term(b))))


def shapes_equal(s1, s2):
    if len(s1) != len(s2):
        return False
    return all(dims_equal(a, b) for a, b in zip(s1, s2))


class ShimShapeError(TypeError):
    pass


def idx_key(idx):
    return tuple(i if isinstance(i, int) else ("z", i.get_id()) for i in idx)


_GUARDS: list = []  # stack of boolean guards active during lazy element evaluation (where branches)


class guard:
    def __init__(self, c):
        self.c = c

    def __enter__(self):
        _GUARDS.append(self.c)
        e = engine.CURRENT
        if e is not None and not isinstance(self.c, bool):
            e.hyps.append(self.c)
        self._pushed = e is not None and not isinstance(self.c, bool)

    def __exit__(self, *a):
        _GUARDS.pop()
        if self._pushed:
            engine.CURRENT.hyps.pop()


def kind_of_elem(e):
    if isinstance(e, (bool, z3.BoolRef)):
        return "bool"
    if isinstance(e, CX):
        return "complex"
    return "real"


class DType:
    def __init__(self, kind):
        self.kind = kind

    def __eq__(self, o):
        return isinstance(o, DType) and o.kind == self.kind

    def __hash__(self):
        return hash(self.kind)

    def __repr__(self):
        return f"dtype[{self.kind}]"


KIND_RANK = {"bool": 0, "real": 1, "complex": 2}


def coerce(e, kind):
    """coerce an element to the given kind"""
    k = kind_of_elem(e)
    if k == kind:
        return e
    if kind == "complex":
        return CX(smt.R(e), 0)
    if kind == "real":
        if k == "bool":
            return smt.R(e)
        raise OutsideSubset("complex -> real coercion (discarding imaginary part implicitly)")
    if kind == "bool":
        if k == "real":
            return smt.rne(e, 0)
    raise OutsideSubset(f"coerce {k}->{kind}")


class SArr:
    """index-lambda array: shape (ints / SInts), kind, fn: index tuple -> element term"""
    __array_priority__ = 1000

    def __init__(self, shape, fn, kind, name=None):
        self.shape = tuple(shape)
        self._fn = fn
        self.kind = kind
        self._memo = {}
        self.name = name

    # ------------------------------------------------------------- basic protocol
    @property
    def ndim(self):
        return len(self.shape)

    @property
    def dtype(self):
        return DType(self.kind)

    @property
    def size(self):
        r = 1
        for d in self.shape:
            r = r * d
        return r

    def __len__(self):
        if not self.shape:
            raise TypeError("len() of unsized object")
        d = self.shape[0]
        if isinstance(d, SInt):
            raise OutsideSubset("len() of an array with symbolic leading dimension")
        return d

    def __iter__(self):
        n = len(self)
        return iter([self[i] for i in range(n)])

    def at_(self, idx):
        """element at a full index tuple of ints / z3 Int terms (no bounds obligation: callers check)"""
        idx = tuple(idx)
        assert len(idx) == len(self.shape), (idx, self.shape)
        key = (idx_key(idx), tuple(id(g) if isinstance(g, bool) else g.get_id() for g in _GUARDS))
        r = self._memo.get(key)
        if r is None:
            r = self._fn(idx)
            r = coerce(r, self.kind)
            self._memo[key] = r
        return r

    def item0(self):
        assert self.shape == ()
        return self.at_(())

    def __repr__(self):
        return f"SArr(shape={self.shape}, kind={self.kind}{', ' + self.name if self.name else ''})"

    def __bool__(self):
        if self.shape != ():
            raise ValueError("The truth value of an array with more than one element is ambiguous")
        e = self.item0()
        if self.kind == "bool":
            return engine.cur().decide(e)
        if self.kind == "real":
            return engine.cur().decide(smt.rne(e, 0))
        raise OutsideSubset("bool() of complex 0-d array")

    def __float__(self):
        raise OutsideSubset("float() of symbolic array")

    def __index__(self):
        raise OutsideSubset("symbolic array used as index")

    def _sym_term(self):
        if self.shape != () or self.kind == "complex":
            raise OutsideSubset("array used as scalar")
        return smt.R(self.item0())

    __hash__ = None

    # ----------------------------------------------------------------- views
    @property
    def real(self):
        if self.kind != "complex":
            return self
        return SArr(self.shape, lambda i: self.at_(i).re, "real")

    @property
    def imag(self):
        if self.kind != "complex":
            return SArr(self.shape, lambda i: 0, "real")
        return SArr(self.shape, lambda i: self.at_(i).im, "real")

    def conj(self):
        if self.kind != "complex":
            return self
        return SArr(self.shape, lambda i: smt.cconj(self.at_(i)), "complex")

    def astype(self, dt):
        k = dt.kind if isinstance(dt, DType) else {bool: "bool", float: "real", complex: "complex", int: "real"}.get(dt)
        if k is None:
            raise OutsideSubset(f"astype({dt})")
        return SArr(self.shape, lambda i: coerce(self.at_(i), k), k)

    def flatten(self):
        return reshape(self, (-1,))

    def reshape(self, *shape):
        if len(shape) == 1 and isinstance(shape[0], (tuple, list)):
            shape = tuple(shape[0])
        return reshape(self, shape)

    @property
    def T(self):
        n = self.ndim
        return transpose(self, tuple(reversed(range(n))))

    # ------------------------------------------------------------- arithmetic
    def __add__(self, o): return binop("add", self, o)
    def __radd__(self, o): return binop("add", o, self)
    def __sub__(self, o): return binop("sub", self, o)
    def __rsub__(self, o): return binop("sub", o, self)
    def __mul__(self, o): return binop("mul", self, o)
    def __rmul__(self, o): return binop("mul", o, self)
    def __truediv__(self, o): return binop("div", self, o)
    def __rtruediv__(self, o): return binop("div", o, self)
    def __pow__(self, o): return power(self, o)
    def __rpow__(self, o): return power(o, self)
    def __neg__(self): return unop("neg", self)
    def __pos__(self): return self
    def __abs__(self): return unop("abs", self)
    def __lt__(self, o): return binop("lt", self, o)
    def __le__(self, o): return binop("le", self, o)
    def __gt__(self, o): return binop("gt", self, o)
    def __ge__(self, o): return binop("ge", self, o)
    def __eq__(self, o): return binop("eq", self, o)
    def __ne__(self, o): return binop("ne", self, o)
    def __and__(self, o): return binop("and", self, o)
    def __rand__(self, o): return binop("and", o, self)
    def __or__(self, o): return binop("or", self, o)
    def __ror__(self, o): return binop("or", o, self)
    def __invert__(self): return unop("not", self)
    def __floordiv__(self, o): return binop("floordiv", self, o)
    def __mod__(self, o): return binop("mod", self, o)

    def sum(self, axis=None, keepdims=False): return reduce_("sum", self, axis, keepdims)
    def mean(self, axis=None, keepdims=False): return reduce_("mean", self, axis, keepdims)
    def max(self, axis=None, keepdims=False): return reduce_("max", self, axis, keepdims)
    def min(self, axis=None, keepdims=False): return reduce_("min", self, axis, keepdims)
    def prod(self, axis=None, keepdims=False): return reduce_("prod", self, axis, keepdims)
    def all(self, axis=None, keepdims=False): return reduce_("all", self, axis, keepdims)
    def any(self, axis=None, keepdims=False): return reduce_("any", self, axis, keepdims)

    def std(self, axis=None, keepdims=False):
        from . import ops
        return ops.std(self, axis, keepdims)

    def copy(self): return self

    def transpose(self, *axes):
        axes = axes[0] if len(axes) == 1 and isinstance(axes[0], (tuple, list)) else axes
        return transpose(self, tuple(ax % self.ndim for ax in axes) if axes else tuple(reversed(range(self.ndim))))

    def swapaxes(self, a, b):
        perm = list(range(self.ndim))
        perm[a % self.ndim], perm[b % self.ndim] = perm[b % self.ndim], perm[a % self.ndim]
        return transpose(self, tuple(perm))

    def squeeze(self, axis=None):
        ax = tuple(i for i, d in enumerate(self.shape) if isinstance(d, int) and d == 1) if axis is None else ((axis,) if isinstance(axis, int) else tuple(axis))
        ax = tuple(a % self.ndim for a in ax)
        if any(not (isinstance(self.shape[a], int) and self.shape[a] == 1) for a in ax):
            raise ValueError("cannot select an axis to squeeze out which has size not equal to one")
        return getitem(self, tuple(0 if i in ax else slice(None) for i in range(self.ndim)))

    # --------------------------------------------------------------- indexing
    def __getitem__(self, key):
        return getitem(self, key)

    @property
    def at(self):
        return _AtHelper(self)


# ------------------------------------------------------------------------ construction
def const_arr(x):
    """python / symbolic scalar -> 0-d SArr"""
    if isinstance(x, SArr):
        return x
    if isinstance(x, SBool):
        return SArr((), lambda i: x.t, "bool")
    if isinstance(x, bool):
        return SArr((), lambda i: x, "bool")
    if isinstance(x, complex):
        c = smt.C(x)
        return SArr((), lambda i: c, "complex")
    if isinstance(x, CX):
        return SArr((), lambda i: x, "complex")
    t = _scalar_term(x)
    if t is None:
        if isinstance(x, (list, tuple)):
            return from_nested(x)
        raise OutsideSubset(f"cannot make an array from {type(x).__name__}")
    return SArr((), lambda i: t, "real")


def from_nested(x):
    """nested python lists/tuples of scalars/arrays -> SArr (jnp.array / jnp.stack semantics)"""
    if isinstance(x, (list, tuple)):
        items = [from_nested(v) for v in x]
        return stack(items, 0)
    return const_arr(x)


def fresh_array(name, shape, kind="real"):
    """array of uninterpreted elements: elem(idx) = UF_name(idx)"""
    shape = tuple(shape)
    n = len(shape)
    e = engine.cur()
    nm = e.fresh_name(name)
    if n == 0:
        if kind == "complex":
            c = CX(z3.Real(nm + ".re"), z3.Real(nm + ".im"))
            return SArr((), lambda i: c, "complex", name=nm)
        if kind == "bool":
            b = z3.Bool(nm)
            return SArr((), lambda i: b, "bool", name=nm)
        v = z3.Real(nm)
        return SArr((), lambda i: v, "real", name=nm)
    dom = [z3.IntSort()] * n
    if kind == "complex":
        fr = z3.Function(nm + ".re", *dom, z3.RealSort())
        fi = z3.Function(nm + ".im", *dom, z3.RealSort())
        return SArr(shape, lambda i: CX(fr(*map(smt.z, i)), fi(*map(smt.z, i))), "complex", name=nm)
    if kind == "bool":
        fb = z3.Function(nm, *dom, z3.BoolSort())
        return SArr(shape, lambda i: fb(*map(smt.z, i)), "bool", name=nm)
    f = z3.Function(nm, *dom, z3.RealSort())
    return SArr(shape, lambda i: f(*map(smt.z, i)), "real", name=nm)


# -------------------------------------------------------------------- broadcasting core
def broadcast_shapes(shapes):
    """returns (out_shape, maps) where maps[k](out_idx) -> index into operand k"""
    rank = max(len(s) for s in shapes)
    out = []
    flags = [[None] * len(s) for s in shapes]
    for pos in range(rank):
        d = None
        members = []
        for k, s in enumerate(shapes):
            j = pos - (rank - len(s))
            if j < 0:
                continue
            members.append((k, j, s[j]))
        for k, j, x in members:
            if is_one(x):
                continue
            if d is None:
                d = x
        if d is None:
            d = 1
        for k, j, x in members:
            if is_one(x):
                flags[k][j] = "one" if not is_one(d) else "same"
            elif x is d or dims_equal(x, d):
                flags[k][j] = "same"
            else:
                # symbolic dims that differ: numpy broadcasts iff one of them is 1
                if isinstance(x, SInt) and bool(mk_bool(smt.req(x.t, 1))):
                    flags[k][j] = "one"
                elif isinstance(d, SInt) and bool(mk_bool(smt.req(d.t, 1))):
                    # d was 1: redo with x as the reference -- rare; treat by restarting
                    raise OutsideSubset("broadcast against a symbolic dimension equal to 1")
                else:
                    raise ShimShapeError(f"incompatible shapes for broadcasting: {shapes}")
        out.append(d)

    def mk_map(k):
        s = shapes[k]
        off = rank - len(s)
        fl = flags[k]

        def m(idx):
            return tuple(0 if fl[j] == "one" else idx[j + off] for j in range(len(s)))
        return m
    return tuple(out), [mk_map(k) for k in range(len(shapes))]


def _promote(*kinds):
    return max(kinds, key=lambda k: KIND_RANK[k])


_REAL_OPS = {
    "add": smt.radd, "sub": smt.rsub, "mul": smt.rmul, "div": smt.rdiv,
    "lt": smt.rlt, "le": smt.rle, "gt": smt.rgt, "ge": smt.rge, "eq": smt.req, "ne": smt.rne,
    "floordiv": smt.rfloordiv, "mod": smt.rmod, "max": smt.rmax, "min": smt.rmin,
}
_CX_OPS = {"add": smt.cadd, "sub": smt.csub, "mul": smt.cmul, "div": smt.cdiv, "eq": smt.ceq,
           "ne": lambda a, b: smt.bnot(smt.ceq(a, b))}
_BOOL_RES = {"lt", "le", "gt", "ge", "eq", "ne"}


def binop(op, a, b):
    if isinstance(a, (str, type(None))) or isinstance(b, (str, type(None))):
        return NotImplemented
    try:
        A, B = const_arr(a), const_arr(b)
    except OutsideSubset:
        return NotImplemented
    shape, (ma, mb) = broadcast_shapes([A.shape, B.shape])
    if op in ("and", "or"):
        f = smt.band if op == "and" else smt.bor
        if A.kind != "bool" or B.kind != "bool":
            raise OutsideSubset("bitwise and/or on non-boolean arrays")
        return SArr(shape, lambda i: f(A.at_(ma(i)), B.at_(mb(i))), "bool")
    k = _promote(A.kind, B.kind)
    if k == "bool":
        if op in ("eq", "ne"):
            g = (lambda x, y: smt.req(smt.R(x), smt.R(y))) if op == "eq" else (lambda x, y: smt.rne(smt.R(x), smt.R(y)))
            return SArr(shape, lambda i: g(A.at_(ma(i)), B.at_(mb(i))), "bool")
        k = "real"  # bool arithmetic promotes to numbers
    if k == "complex":
        if op not in _CX_OPS:
            raise OutsideSubset(f"{op} on complex arrays")
        f = _CX_OPS[op]
        return SArr(shape, lambda i: f(coerce(A.at_(ma(i)), "complex"), coerce(B.at_(mb(i)), "complex")),
                    "bool" if op in _BOOL_RES else "complex")
    f = _REAL_OPS[op]
    return SArr(shape, lambda i: f(coerce(A.at_(ma(i)), "real"), coerce(B.at_(mb(i)), "real")),
                "bool" if op in _BOOL_RES else "real")


def unop(op, a):
    A = const_arr(a)
    if op == "neg":
        if A.kind == "complex":
            return SArr(A.shape, lambda i: smt.cneg(A.at_(i)), "complex")
        return SArr(A.shape, lambda i: smt.rneg(coerce(A.at_(i), "real")), "real")
    if op == "abs":
        if A.kind == "complex":
            return SArr(A.shape, lambda i: smt.rsqrt(smt.cabs2(A.at_(i))), "real")
        return SArr(A.shape, lambda i: smt.rabs(coerce(A.at_(i), "real")), "real")
    if op == "not":
        if A.kind != "bool":
            raise OutsideSubset("invert on non-boolean array")
        return SArr(A.shape, lambda i: smt.bnot(A.at_(i)), "bool")
    raise OutsideSubset(op)


def power(a, p):
    A = const_arr(a)
    if isinstance(p, SArr) and p.shape == () and p.kind == "real" and smt.is_conc(p.item0()):
        p = p.item0()
    if isinstance(p, (SInt, SFloat)) and smt.is_conc(p.t):
        p = p.t
    if isinstance(p, float) and not isinstance(p, SFloat) and p == int(p):
        p = int(p)
    if isinstance(p, Fraction) and p.denominator == 1:
        p = int(p)
    if isinstance(p, int) and not isinstance(p, bool):
        if A.kind == "complex":
            return SArr(A.shape, lambda i: smt.cpow_int(A.at_(i), p), "complex")
        return SArr(A.shape, lambda i: smt.rpow_int(coerce(A.at_(i), "real"), p), "real")
    P = const_arr(p)
    if A.kind == "complex" or P.kind == "complex":
        raise OutsideSubset("complex ** non-integer")
    shape, (ma, mb) = broadcast_shapes([A.shape, P.shape])
    return SArr(shape, lambda i: smt.rpow_real(coerce(A.at_(ma(i)), "real"), coerce(P.at_(mb(i)), "real")), "real")


def where(c, a, b):
    Cc, A, B = const_arr(c), const_arr(a), const_arr(b)
    if Cc.kind != "bool":
        Cc = SArr(Cc.shape, (lambda i, Cc=Cc: smt.rne(coerce(Cc.at_(i), "real"), 0)), "bool")
    shape, (mc, ma, mb) = broadcast_shapes([Cc.shape, A.shape, B.shape])
    k = _promote(A.kind, B.kind)

    def fn(i):
        cond = Cc.at_(mc(i))
        if isinstance(cond, bool):
            return coerce((A.at_(ma(i)) if cond else B.at_(mb(i))), k)
        with guard(cond):
            x = coerce(A.at_(ma(i)), k)
        with guard(smt.bnot(cond)):
            y = coerce(B.at_(mb(i)), k)
        if k == "complex":
            return smt.cite(cond, x, y)
        if k == "bool":
            return z3.If(cond, smt.z(x), smt.z(y))
        return smt.rite(cond, x, y)
    return SArr(shape, fn, k)


# -------------------------------------------------------------------------- reductions
def norm_axes(axis, ndim):
    if axis is None:
        return tuple(range(ndim))
    if isinstance(axis, int):
        axis = (axis,)
    return tuple(sorted(a % ndim for a in axis))


REDUCE_SYMBOLIC = None  # hook installed by ops.py for symbolic-length reductions


def reduce_(op, a, axis=None, keepdims=False, where_=None):
    A = const_arr(a)
    axes = norm_axes(axis, A.ndim)
    if not axes:
        return A
    sym = [ax for ax in axes if isinstance(A.shape[ax], SInt)]
    if sym:
        if REDUCE_SYMBOLIC is None:
            raise OutsideSubset(f"{op} over a symbolic-length axis")
        return REDUCE_SYMBOLIC(op, A, axes, keepdims, where_)
    if where_ is not None:
        raise OutsideSubset("where= reduction over concrete axes")
    out_shape = tuple((1 if i in axes else d) for i, d in enumerate(A.shape)) if keepdims else \
        tuple(d for i, d in enumerate(A.shape) if i not in axes)
    ranges = [range(A.shape[ax]) for ax in axes]
    count = 1
    for ax in axes:
        count *= A.shape[ax]

    def fn(idx):
        if keepdims:
            base = list(idx)
        else:
            base = []
            it = iter(idx)
            for i in range(A.ndim):
                base.append(0 if i in axes else next(it))
        acc = None
        for combo in itertools.product(*ranges):
            for ax, v in zip(axes, combo):
                base[ax] = v
            e = A.at_(tuple(base))
            if acc is None:
                acc = e if A.kind != "bool" or op in ("all", "any") else smt.R(e)
                continue
            if op in ("sum", "mean"):
                acc = smt.cadd(acc, e) if A.kind == "complex" else smt.radd(acc, smt.R(e))
            elif op == "prod":
                acc = smt.cmul(acc, e) if A.kind == "complex" else smt.rmul(acc, smt.R(e))
            elif op == "max":
                acc = smt.rmax(acc, smt.R(e))
            elif op == "min":
                acc = smt.rmin(acc, smt.R(e))
            elif op == "all":
                acc = smt.band(acc, e)
            elif op == "any":
                acc = smt.bor(acc, e)
            else:
                raise OutsideSubset(op)
        if op == "mean":
            acc = smt.cdiv(acc, CX(count, 0)) if A.kind == "complex" else smt.rdiv(acc, count)
        return acc
    kind = A.kind
    if kind == "bool" and op not in ("all", "any"):
        kind = "real"
    if count == 0:
        raise OutsideSubset("reduction over empty axis")
    return SArr(out_shape, fn, kind)


# ------------------------------------------------------------------- structural helpers
def stack(items, axis=0):
    items = [const_arr(x) for x in items]
    if not items:
        raise ValueError("need at least one array to stack")
    s0 = items[0].shape
    for it in items[1:]:
        if not shapes_equal(it.shape, s0):
            raise ValueError(f"all input arrays must have the same shape: {s0} vs {it.shape}")
    n = len(s0) + 1
    axis = axis % n
    kind = _promote(*[it.kind for it in items])
    shape = s0[:axis] + (len(items),) + s0[axis:]

    def fn(idx):
        j = idx[axis]
        rest = idx[:axis] + idx[axis + 1:]
        if isinstance(j, int):
            return coerce(items[j].at_(rest), kind)
        return select_by_index(j, [coerce(it.at_(rest), kind) for it in items], kind)
    return SArr(shape, fn, kind)


def select_by_index(j, elems, kind):
    """If-chain: elems[j] for symbolic j in range(len(elems))"""
    acc = elems[-1]
    for k in range(len(elems) - 2, -1, -1):
        c = smt.req(j, k)
        if kind == "complex":
            acc = smt.cite(c, elems[k], acc)
        elif kind == "bool":
            acc = z3.If(c, smt.z(elems[k]), smt.z(acc))
        else:
            acc = smt.rite(c, elems[k], acc)
    return acc


def concatenate(items, axis=0):
    items = [const_arr(x) for x in items]
    nd = items[0].ndim
    axis = axis % nd
    for it in items[1:]:
        if it.ndim != nd:
            raise ValueError("concatenate: rank mismatch")
        for ax in range(nd):
            if ax != axis and not dims_equal(it.shape[ax], items[0].shape[ax]):
                raise ValueError(f"concatenate: shape mismatch {items[0].shape} vs {it.shape}")
    kind = _promote(*[it.kind for it in items])
    offs = [0]
    for it in items:
        offs.append(offs[-1] + it.shape[axis])
    shape = items[0].shape[:axis] + (offs[-1],) + items[0].shape[axis + 1:]

    def fn(idx):
        j = idx[axis]
        if isinstance(j, int) and all(isinstance(o, int) for o in offs):
            for k, it in enumerate(items):
                if offs[k] <= j < offs[k + 1]:
                    return coerce(it.at_(idx[:axis] + (j - offs[k],) + idx[axis + 1:]), kind)
            raise IndexError(j)
        acc = None
        for k in range(len(items) - 1, -1, -1):
            it = items[k]
            o = dim_term(offs[k])
            with guard(smt.band(smt.rge(j, o), smt.rlt(j, dim_term(offs[k + 1])))):
                e = coerce(it.at_(idx[:axis] + (smt.norm(z3.simplify(smt.z(smt.rsub(j, o)))),) + idx[axis + 1:]), kind)
            if acc is None:
                acc = e
            else:
                c = smt.rlt(j, dim_term(offs[k + 1]))
                acc = smt.cite(c, e, acc) if kind == "complex" else (
                    z3.If(c, smt.z(e), smt.z(acc)) if kind == "bool" else smt.rite(c, e, acc))
        return acc
    return SArr(shape, fn, kind)


def transpose(a, perm):
    A = const_arr(a)
    shape = tuple(A.shape[p] for p in perm)
    inv = [0] * len(perm)
    for i, p in enumerate(perm):
        inv[p] = i
    return SArr(shape, lambda idx: A.at_(tuple(idx[inv[k]] for k in range(len(perm)))), A.kind)


def moveaxis(a, src, dst):
    A = const_arr(a)
    n = A.ndim
    src, dst = src % n, dst % n
    order = [i for i in range(n) if i != src]
    order.insert(dst, src)
    return transpose(A, tuple(order))


def expand_dims(a, axis):
    A = const_arr(a)
    if isinstance(axis, int):
        axis = (axis,)
    n = A.ndim + len(axis)
    axes = sorted(ax % n for ax in axis)
    shape, it = [], iter(A.shape)
    for i in range(n):
        shape.append(1 if i in axes else next(it))
    return SArr(tuple(shape), lambda idx: A.at_(tuple(v for i, v in enumerate(idx) if i not in axes)), A.kind)


def broadcast_to(a, shape):
    A = const_arr(a)
    out, (m, _) = broadcast_shapes([A.shape, tuple(shape)])
    return SArr(out, lambda idx: A.at_(m(idx)), A.kind)


def reshape(a, shape):
    A = const_arr(a)
    if isinstance(shape, (int, SInt)):
        shape = (shape,)
    shape = tuple(shape)
    # rank-preserving / identical
    if len(shape) == A.ndim and all(not (isinstance(d, int) and d == -1) for d in shape) and shapes_equal(shape, A.shape):
        return A
    # flatten: keep a handle on the source so that .at[0].set(v).reshape(src.shape) round-trips
    if shape == (-1,) or (len(shape) == 1 and A.ndim >= 1):
        if A.ndim == 1:
            return A
        return _Flat(A)
    if isinstance(A, _Flat) and shapes_equal(shape, A.src.shape):
        return A.unflatten()
    # insertion / removal of unit axes only
    if all(isinstance(d, int) for d in shape) and all(isinstance(d, int) for d in A.shape):
        src_non1 = [d for d in A.shape if d != 1]
        dst_non1 = [d for d in shape if d != 1]
        if src_non1 == dst_non1:
            src_pos = [i for i, d in enumerate(A.shape) if d != 1]
            dst_pos = [i for i, d in enumerate(shape) if d != 1]

            def fn(idx):
                full = [0] * A.ndim
                for sp, dp in zip(src_pos, dst_pos):
                    full[sp] = idx[dp]
                return A.at_(tuple(full))
            return SArr(shape, fn, A.kind)
    raise OutsideSubset(f"reshape {A.shape} -> {shape}")


class _Flat(SArr):
    """flattened view supporting only .at[0].set/add and reshape back (the idiom used in exponax.ic)"""

    def __init__(self, src, patch=None):
        self.src = src
        self.patch = patch  # (mode, value elem)
        n = 1
        for d in src.shape:
            n = n * d
        super().__init__((n,), self._elem, src.kind if patch is None else _promote(src.kind, kind_of_elem(patch[1])))

    def _elem(self, idx):
        raise OutsideSubset("element access into a flattened multi-dimensional array")

    def set0(self, mode, val):
        if self.patch is not None:
            raise OutsideSubset("repeated patch of flattened array")
        return _Flat(self.src, (mode, val))

    def unflatten(self):
        src, patch, kind = self.src, self.patch, self.kind
        if patch is None:
            return src
        mode, val = patch

        def fn(idx):
            allzero = True
            for i in idx:
                allzero = smt.band(allzero, smt.req(i, 0))
            old = coerce(src.at_(idx), kind)
            v = coerce(val, kind)
            new = v if mode == "set" else (smt.cadd(old, v) if kind == "complex" else smt.radd(old, v))
            if isinstance(allzero, bool):
                return new if allzero else old
            return smt.cite(allzero, new, old) if kind == "complex" else smt.rite(allzero, new, old)
        return SArr(src.shape, fn, kind)


# ------------------------------------------------------------------------------ indexing
def _bounds_obligation(i, d, what="index"):
    e = engine.CURRENT
    if e is None:
        return
    if isinstance(i, int) and isinstance(d, int):
        if not (0 <= i < d):
            raise IndexError(f"index {i} out of bounds for axis of size {d}")
        return
    e.prove(f"{what} in bounds", smt.band(smt.rge(i, 0), smt.rlt(i, dim_term(d))), kind="bounds")


def _norm_slice(sl, d):
    """slice -> (start, stop) as R-values, step must be None/1"""
    if sl.step not in (None, 1):
        raise OutsideSubset("strided slice")
    dt = dim_term(d)

    def fix(v, default):
        if v is None:
            return default
        t = dim_term(v) if isinstance(v, SInt) else v
        if isinstance(t, int):
            if t < 0:
                t = smt.radd(dt, t)
            elif isinstance(dt, int):
                t = min(t, dt)
            else:
                # numpy clamps to the axis length: only accept when provably within
                t = t
            return t
        # symbolic bound: negative values count from the end
        neg = mk_bool(smt.rlt(t, 0))
        if bool(neg):
            return smt.radd(dt, t)
        return t
    start, stop = fix(sl.start, 0), fix(sl.stop, dt)
    if isinstance(start, int) and isinstance(stop, int) and isinstance(dt, int):
        start = max(0, min(start, dt))
        stop = max(start, min(stop, dt))
    else:
        e = engine.cur()
        e.prove("slice within bounds", z3.And(smt.z(smt.rge(start, 0)), smt.z(smt.rle(start, stop)), smt.z(smt.rle(stop, dt))),
                kind="bounds")
    return start, stop


def _expand_key(key, ndim):
    if not isinstance(key, tuple):
        key = (key,)
    n_real = sum(1 for k in key if k is not None and k is not Ellipsis)
    out = []
    seen_ell = False
    for k in key:
        if k is Ellipsis:
            if seen_ell:
                raise IndexError("more than one ellipsis")
            seen_ell = True
            out.extend([slice(None)] * (ndim - n_real))
        else:
            out.append(k)
    n_now = sum(1 for k in out if k is not None)
    if n_now > ndim:
        raise IndexError("too many indices for array")
    out.extend([slice(None)] * (ndim - n_now))
    return out


def getitem(A, key):
    if isinstance(key, SArr):
        raise OutsideSubset("array-valued (fancy / boolean) indexing")
    keys = _expand_key(key, A.ndim)
    plan = []  # per source axis: ("fix", i) | ("slice", start) ; plus new axes
    out_shape = []
    src_ax = 0
    layout = []  # per output axis: source axis or None (newaxis)
    for k in keys:
        if k is None:
            out_shape.append(1)
            layout.append(None)
            continue
        d = A.shape[src_ax]
        if isinstance(k, slice):
            start, stop = _norm_slice(k, d)
            ln = smt.rsub(stop, start)
            ln = mk_int(ln) if not isinstance(ln, int) else ln
            plan.append(("slice", start))
            out_shape.append(ln)
            layout.append(src_ax)
        elif isinstance(k, (int, SInt)) and not isinstance(k, bool):
            t = dim_term(k)
            if isinstance(t, int) and t < 0:
                t = smt.radd(dim_term(d), t)
                t = smt.norm(z3.simplify(t)) if not isinstance(t, int) else t
            _bounds_obligation(t, d)
            plan.append(("fix", t))
        elif isinstance(k, z3.ArithRef):
            _bounds_obligation(k, d)
            plan.append(("fix", k))
        else:
            raise OutsideSubset(f"index of type {type(k).__name__}")
        src_ax += 1

    def fn(idx):
        src = []
        pos = {}
        for o, sa in enumerate(layout):
            if sa is not None:
                pos[sa] = idx[o]
        for sa, (kind, v) in enumerate(plan):
            if kind == "fix":
                src.append(v)
            else:
                i = pos[sa]
                if isinstance(v, int) and v == 0:
                    src.append(i)
                else:
                    s = smt.radd(i, v)
                    src.append(s if isinstance(s, int) else smt.norm(z3.simplify(s)))
        return A.at_(tuple(src))
    return SArr(tuple(out_shape), fn, A.kind)


class _AtHelper:
    def __init__(self, a):
        self.a = a

    def __getitem__(self, key):
        return _AtIndexed(self.a, key)


class _AtIndexed:
    def __init__(self, a, key):
        self.a, self.key = a, key

    def set(self, v):
        return self._upd("set", v)

    def add(self, v):
        return self._upd("add", v)

    def multiply(self, v):
        return self._upd("mul", v)

    def _upd(self, mode, v):
        A, key = self.a, self.key
        if isinstance(A, _Flat):
            if isinstance(key, int) and key == 0 and mode in ("set", "add"):
                V = const_arr(v)
                if V.shape != ():
                    raise OutsideSubset("non-scalar patch of flattened array")
                return A.set0(mode, V.item0())
            raise OutsideSubset("general indexed update of a flattened array")
        keys = _expand_key(key, A.ndim)
        if any(k is None for k in keys):
            raise OutsideSubset("newaxis in indexed update")
        # region description per axis
        region = []
        sub_shape = []
        for ax, k in enumerate(keys):
            d = A.shape[ax]
            if isinstance(k, slice):
                start, stop = _norm_slice(k, d)
                region.append(("slice", start, stop))
                ln = smt.rsub(stop, start)
                sub_shape.append(mk_int(ln) if not isinstance(ln, int) else ln)
            else:
                t = dim_term(k) if isinstance(k, (int, SInt)) else k
                if isinstance(t, int) and t < 0:
                    t = smt.radd(dim_term(d), t)
                _bounds_obligation(t, d)
                region.append(("fix", t))
        V = const_arr(v)
        _, (mv, _m2) = broadcast_shapes([V.shape, tuple(sub_shape)])
        # jax casts the update to the dtype of the operand (scatter): a complex value written into a real array
        # keeps its real part only (FutureWarning in the pinned jax), it does not promote the array
        if A.kind == "real" and V.kind == "complex":
            V = SArr(V.shape, lambda idx, V=V: V.at_(idx).re, "real")
        kind = A.kind if KIND_RANK[A.kind] >= KIND_RANK[V.kind] else V.kind

        def fn(idx):
            inside = True
            sub = []
            for ax, r in enumerate(region):
                i = idx[ax]
                if r[0] == "fix":
                    inside = smt.band(inside, smt.req(i, r[1]))
                else:
                    inside = smt.band(inside, smt.band(smt.rge(i, r[1]), smt.rlt(i, r[2])))
                    s = smt.rsub(i, r[1])
                    sub.append(s if isinstance(s, int) else smt.norm(z3.simplify(s)))
            old = coerce(A.at_(idx), kind)
            if inside is False:
                return old
            with guard(inside):
                val = coerce(V.at_(mv(tuple(sub))), kind)
            if mode == "set":
                new = val
            elif mode == "add":
                new = smt.cadd(old, val) if kind == "complex" else smt.radd(old, val)
            else:
                new = smt.cmul(old, val) if kind == "complex" else smt.rmul(old, val)
            if inside is True:
                return new
            if kind == "complex":
                return smt.cite(inside, new, old)
            if kind == "bool":
                return z3.If(inside, smt.z(new), smt.z(old))
            return smt.rite(inside, new, old)
        return SArr(A.shape, fn, kind)
