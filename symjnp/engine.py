"""Path exploration, obligations and the solver driver of symjnp.

A *run* executes a Python callable (a harness that calls real /repo code under the
contract shim) once per feasible decision sequence.  SBool.__bool__ calls decide(); every
obligation (ensures, call-site requires, division, index bounds) goes through prove().
"""
from __future__ import annotations

import os
import time
import traceback

import z3

from . import smt
from .smt import OutsideSubset

MAX_PATHS = 512
TIMEOUT_MS = int(os.environ.get("SYMJNP_TIMEOUT_MS", "20000"))


class Obligation:
    __slots__ = ("name", "kind", "status", "model", "time_s", "backend", "path", "smt2", "note", "func")

    def __init__(self, name, kind):
        self.name, self.kind = name, kind
        self.status, self.model, self.time_s, self.backend = "open", None, 0.0, "z3 " + z3.get_version_string()
        self.path, self.smt2, self.note, self.func = None, None, "", None

    def as_dict(self):
        return {"name": self.name, "kind": self.kind, "status": self.status, "time_s": round(self.time_s, 4),
                "backend": self.backend, "path": self.path, "func": self.func, "note": self.note,
                "model": self.model}


class PathAbort(Exception):
    """internal: abandon the current path (infeasible)"""


STATS = {"queries": 0, "solver_s": 0.0, "decide_queries": 0}


TSCALE = float(os.environ.get("SYMJNP_TSCALE", "1"))  # global time-budget multiplier (retries of undecided items use 3)


def _solver(timeout_ms=None):
    s = z3.Solver()
    s.set("timeout", int((timeout_ms or TIMEOUT_MS) * TSCALE))
    return s


def _abstract_ints(fs):
    """Replace maximal Int-sorted subterms that occur under to_real by fresh Real constants.
    Sound for proving unsat (the abstraction only forgets facts)."""
    cache, fresh = {}, {}

    def go(e):
        i = e.get_id()
        if i in cache:
            return cache[i]
        r = e
        if z3.is_app(e):
            if e.decl().kind() == z3.Z3_OP_TO_REAL:
                a = e.arg(0)
                if not z3.is_int_value(a):
                    k = a.get_id()
                    if k not in fresh:
                        fresh[k] = z3.Real(f"abs!{len(fresh)}")
                    r = fresh[k]
            elif e.num_args() > 0:
                ch = [go(c) for c in e.children()]
                if any(c.get_id() != o.get_id() for c, o in zip(ch, e.children())):
                    try:
                        r = e.decl()(*ch)
                    except z3.Z3Exception:
                        r = e
        cache[i] = r
        return r

    out = [go(f) for f in fs]
    return out, bool(fresh)


def check_sat(assertions, *, timeout_ms=None, want_model=False, try_abstract=True, axiom_opts=None):
    """returns (status, model|None); status in sat/unsat/unknown"""
    axiom_opts = axiom_opts or {}
    fs = [a for a in assertions if not isinstance(a, bool)]
    if any(a is False for a in assertions):
        return "unsat", None
    facts, _ = smt.math_axiom_instances(fs, **axiom_opts)
    allf = smt.GLOBAL_AXIOMS + fs + facts
    t0 = time.time()
    STATS["queries"] += 1
    try:
        if try_abstract:
            afs, changed = _abstract_ints(allf)
            if changed:
                s = _solver(min(timeout_ms or TIMEOUT_MS, 5000))
                s.add(*afs)
                if s.check() == z3.unsat:
                    return "unsat", None
        s = _solver(timeout_ms)
        s.add(*allf)
        r = s.check()
        if r == z3.unsat:
            return "unsat", None
        if r == z3.sat:
            return "sat", (s.model() if want_model else None)
        return "unknown", None
    finally:
        STATS["solver_s"] += time.time() - t0


def _conjuncts(goal):
    if z3.is_and(goal):
        out = []
        for c in goal.children():
            out.extend(_conjuncts(c))
        return out
    return [goal]


def _ring_identity(goal, hyps):
    """True iff every conjunct of goal is an equation lhs == rhs that holds as a ring identity (normal forms of both
    sides coincide) and every denominator occurring in it is provably non-zero under hyps (z3)."""
    from . import poly
    side = {}
    for c in _conjuncts(goal):
        if z3.is_true(c):
            continue
        if not (z3.is_eq(c) and z3.is_arith(c.arg(0))):
            return False
        ok, conds = poly.equal_by_normalisation(c.arg(0), c.arg(1))
        if not ok:
            return False
        for d in conds:
            side[d.get_id()] = d
    for d in side.values():
        hint = smt.NZ_HINT.get(d.get_id())
        if hint is not None:  # d = |w^n|^2: non-zero iff w is (trusted algebraic fact), much cheaper to prove
            st, _ = check_sat(list(hyps) + [z3.Not(hint[1])], timeout_ms=4000)
            if st == "unsat":
                continue
        st, _ = check_sat(list(hyps) + [d == 0], timeout_ms=4000)
        if st != "unsat":
            return False
    return True


def _ite_conditions(goal, limit=4):
    conds, seen = {}, set()
    stack = [goal]
    while stack:
        x = stack.pop()
        i = x.get_id()
        if i in seen:
            continue
        seen.add(i)
        if z3.is_app(x):
            if x.decl().kind() == z3.Z3_OP_ITE:
                c = x.arg(0)
                conds.setdefault(c.get_id(), c)
            stack.extend(x.children())
    cs = list(conds.values())
    # prefer the outermost / smallest conditions
    cs.sort(key=lambda c: len(c.sexpr()))
    return cs[:limit] if len(cs) <= 6 else None


def _by_cases(goal, hyps, opts):
    conds = _ite_conditions(goal)
    if not conds:
        return False
    import itertools
    for assign in itertools.product([True, False], repeat=len(conds)):
        lits = [c if v else z3.Not(c) for c, v in zip(conds, assign)]
        st, _ = check_sat(list(hyps) + lits, timeout_ms=3000)
        if st == "unsat":
            continue  # infeasible case
        g = z3.simplify(z3.substitute(goal, *[(c, z3.BoolVal(v)) for c, v in zip(conds, assign)]))
        if z3.is_true(g):
            continue
        h2 = list(hyps) + lits
        if _ring_identity(g, h2):
            continue
        st, _ = check_sat(h2 + [z3.Not(g)], timeout_ms=8000, axiom_opts=opts)
        if st != "unsat":
            return False
    return True


def model_to_dict(m, limit=60):
    out = {}
    if m is None:
        return out
    for d in m.decls():
        if d.arity() == 0:
            v = m[d]
            out[d.name()] = str(v)
        if len(out) >= limit:
            break
    return out


class Engine:
    """one instance per verified function (harness)"""

    def __init__(self, func_name):
        self.func_name = func_name
        self.obligations: list[Obligation] = []
        self.paths = 0
        self.pc: list = []
        self.trace: list[bool] = []
        self.prefix: list[bool] = []
        self.work: list[list[bool]] = []
        self.hyps: list = []  # temporary hypotheses (index bounds while comparing arrays)
        self.fresh = 0
        self.path_id = 0
        self.axiom_opts = {}
        self.div_guard_off = 0
        self.assumptions_used = set()
        self._decide_cache = {}
        self._div_seen = set()
        self.tainted = False          # a silent simplification query timed out on the current path
        self.div_assume = False       # divisions assume (instead of prove) a non-zero denominator
        self.div_guard_off_spec = 0   # >0 while spec terms are evaluated (no facts are taken from spec divisions)
        self.concrete = None  # replay mode: dict symbol name -> python number

    # --------------------------------------------------------------- symbols
    def fresh_name(self, base):
        self.fresh += 1
        return f"{base}!{self.fresh}"

    # ------------------------------------------------------------- branching
    def _feasible(self, cond):
        key = (tuple(c.get_id() for c in self.pc), cond.get_id())
        if key in self._decide_cache:
            return self._decide_cache[key]
        STATS["decide_queries"] += 1
        st, _ = check_sat(self.pc + [cond], timeout_ms=10000, try_abstract=False)
        r = st != "unsat"
        self._decide_cache[key] = r
        return r

    def decide(self, cond) -> bool:
        if isinstance(cond, bool):
            return cond
        cond = z3.simplify(cond)
        if z3.is_true(cond):
            return True
        if z3.is_false(cond):
            return False
        pos = len(self.trace)
        if pos < len(self.prefix):
            take = self.prefix[pos]
        else:
            can_t = self._feasible(cond)
            can_f = self._feasible(z3.Not(cond))
            if can_t and can_f:
                take = True
                self.work.append(self.trace + [False])
            elif can_t:
                take = True
            elif can_f:
                take = False
            else:
                raise PathAbort()
        self.trace.append(take)
        self.pc.append(cond if take else z3.Not(cond))
        return take

    def assume(self, cond):
        """add a fact to the path condition (used for harness preconditions = requires)"""
        if isinstance(cond, bool):
            if not cond:
                raise PathAbort()
            return
        self.pc.append(cond)

    # ------------------------------------------------------------ obligations
    def prove(self, name, goal, *, kind="ensures", extra_hyps=(), axiom_opts=None):
        ob = Obligation(f"{self.func_name}::{name}", kind)
        ob.path, ob.func = self.path_id, self.func_name
        self.obligations.append(ob)
        if isinstance(goal, bool):
            ob.status = "discharged" if goal else "refuted"
            ob.note = "decided concretely"
            if not goal:
                ob.model = {}
            return ob.status == "discharged"
        t0 = time.time()
        hy = self.pc + self.hyps + list(extra_hyps)
        opts = dict(self.axiom_opts)
        opts.update(axiom_opts or {})
        st, m = None, None
        if kind in ("ensures", "invariant", "lemma") and _ring_identity(goal, hy):
            st = "unsat"
            ob.backend = "ring-normaliser (symjnp.poly) + z3 %s for non-zero side conditions" % z3.get_version_string()
        if st is None:
            st, m = check_sat(hy + [z3.Not(goal)], want_model=True, axiom_opts=opts,
                              timeout_ms=(TIMEOUT_MS if kind not in ("ensures", "invariant", "lemma") else min(TIMEOUT_MS, 6000)))
            if st == "unknown" and kind in ("ensures", "invariant", "lemma"):
                # case analysis on the guards (ite conditions) of the goal, each case by normaliser / z3
                if _by_cases(goal, hy, opts):
                    st = "unsat"
                    ob.backend = "case split on guards; ring-normaliser / z3 %s per case" % z3.get_version_string()
                else:
                    st, m = check_sat(hy + [z3.Not(goal)], want_model=True, axiom_opts=opts)
        ob.time_s = time.time() - t0
        if st == "unsat":
            ob.status = "discharged"
        elif st == "sat" and self.tainted and kind in ("ensures", "invariant", "lemma"):
            # the counter-model may be an artefact of a simplification / interning query that ran out of time earlier on
            # this path (two equal operator arguments left un-identified): undecided, never an alarm
            ob.status = "unknown"
            ob.note = "solver found a model, but a semantic-interning query timed out earlier on this path: not trusted"
        elif st == "sat":
            ob.status = "refuted"
            ob.model = model_to_dict(m)
        else:
            ob.status = "unknown"
        if ob.status != "discharged" or len(self.obligations) <= 3:
            try:
                s = z3.Solver()
                s.add(*(smt.GLOBAL_AXIOMS + [h for h in hy if not isinstance(h, bool)] + [z3.Not(goal)]))
                txt = s.to_smt2()
                ob.smt2 = txt if len(txt) < 20000 else txt[:20000] + "\n; ...truncated"
            except Exception:
                pass
        return ob.status == "discharged"

    def satisfiable(self, name, extra=(), lenient=False):
        """vacuity guard: the path condition (+extra) must be satisfiable.  lenient: only a PROVED inconsistency (unsat)
        fails the guard -- used at the end of a path, where facts assumed on the way (non-zero denominators, ranges of
        random draws) must not have made the path condition contradictory; `unknown` says nothing there"""
        ob = Obligation(f"{self.func_name}::{name}", "vacuity")
        ob.path, ob.func = self.path_id, self.func_name
        self.obligations.append(ob)
        st, _ = check_sat(self.pc + self.hyps + list(extra), try_abstract=False)
        if lenient:
            ob.status = "refuted" if st == "unsat" else "discharged"
            ob.note = f"path condition at the end of the path: {st} (only unsat would be a vacuous proof)"
            return st != "unsat"
        ob.status = "discharged" if st == "sat" else ("unknown" if st == "unknown" else "refuted")
        ob.note = "requires/path condition satisfiable"
        return st == "sat"

    # ----------------------------------------------------------------- driver
    def run(self, harness):
        """harness(engine) is executed once per feasible path"""
        from . import values  # noqa
        global CURRENT
        self.work = [[]]
        while self.work:
            self.prefix = self.work.pop()
            self.trace, self.pc, self.hyps = [], [], []
            self.fresh = 0
            self.tainted = False
            self.path_id = self.paths
            self.paths += 1
            if self.paths > MAX_PATHS:
                raise OutsideSubset(f"{self.func_name}: more than {MAX_PATHS} paths")
            prev = CURRENT
            CURRENT = self
            smt.DivisionObligation.hook = self._div_hook
            smt.DivisionObligation.hook_cond = self._div_hook_cond
            try:
                harness(self)
            except PathAbort:
                pass
            finally:
                CURRENT = prev
                smt.DivisionObligation.hook = prev._div_hook if prev is not None else None
                smt.DivisionObligation.hook_cond = prev._div_hook_cond if prev is not None else None
        return self

    def _div_hook(self, den):
        if self.div_assume and not self.div_guard_off:
            # documented assumption on the inputs (e.g. a reference field with non-zero norm): the denominator is
            # non-zero -- recorded as a fact of the path, listed under assumptions
            if isinstance(den, z3.ExprRef):
                fact = den != 0
                if not any(fact.get_id() == c.get_id() for c in self.pc):
                    self.pc.append(fact)
            return
        if self.div_guard_off:
            return
        key = (self.path_id, den.get_id(), tuple(h.get_id() for h in self.hyps))
        if key in self._div_seen:
            return
        self._div_seen.add(key)
        self.prove("division: denominator != 0", smt.rne(den, 0), kind="division")

    def _div_hook_cond(self, cond):
        if self.div_guard_off or cond is True:
            return
        if cond is False:
            self.prove("division: complex denominator != 0", False, kind="division")
            return
        key = (self.path_id, cond.get_id(), tuple(h.get_id() for h in self.hyps))
        if key in self._div_seen:
            return
        self._div_seen.add(key)
        self.prove("division: complex denominator != 0", cond, kind="division")

    def holds(self, cond, timeout_ms=5000):
        """silent validity check under the current path condition (used by the shim to simplify; no obligation)"""
        if isinstance(cond, bool):
            return cond
        st, _ = check_sat(self.pc + self.hyps + [z3.Not(cond)], timeout_ms=timeout_ms)
        if st == "unknown":
            self.tainted = True  # a simplification query timed out: later refutations on this path are not trusted
        return st == "unsat"


CURRENT: Engine | None = None


def cur() -> Engine:
    if CURRENT is None:
        raise OutsideSubset("symbolic value used outside an engine run")
    return CURRENT


class no_div_guard:
    """context: divisions inside are not turned into obligations (unselected `where` branches, specs)"""

    def __enter__(self):
        if CURRENT is not None:
            CURRENT.div_guard_off += 1

    def __exit__(self, *a):
        if CURRENT is not None:
            CURRENT.div_guard_off -= 1


def format_tb():
    return traceback.format_exc()
