"""Array-level operators of the shim: rfftn / irfftn (opaque real-linear operators, semantically interned),
symbolic-length reductions, lax.scan (by invariant), vmap, jax.random, and a few helpers."""
from __future__ import annotations

import itertools
from fractions import Fraction

import z3

from . import engine, poly, smt, values
from .shim import _u
from .smt import CX, OutsideSubset
from .values import SArr, SFloat, SInt, const_arr, dim_term, mk_bool, mk_int

# canonical bound index variables (per nesting family)
_BV = {}


_DEPTH = {}


def bound_vars(family, n):
    """bound index variables of an operator application at the current nesting depth of its family (an operator
    whose argument contains another application of the same family must not capture its variables)"""
    d = _DEPTH.get(family, 0)
    out = []
    for j in range(n):
        key = (family, d, j)
        if key not in _BV:
            _BV[key] = z3.Int(f"BV!{family}!{d}!{j}")
        out.append(_BV[key])
    return out


class nested:
    """context entered while the ARGUMENT of an operator of `family` is evaluated"""

    def __init__(self, family):
        self.family = family

    def __enter__(self):
        _DEPTH[self.family] = _DEPTH.get(self.family, 0) + 1

    def __exit__(self, *a):
        _DEPTH[self.family] -= 1


_CANON_BV = {}


def canon_bv(j):
    if j not in _CANON_BV:
        _CANON_BV[j] = z3.Int(f"BV!#!{j}")
    return _CANON_BV[j]


class _Interner:
    """per-path table: (op key, core) -> uninterpreted function symbol.  Syntactic match first (hash-consed ids),
    then semantic match: z3 proves forall bound vars. core1 == core2 under the current path condition."""

    def __init__(self):
        self.tables = {}  # opkey -> list[(canon_id, inst_term, inst_args, uf)]
        self.count = 0
        self.info = {}    # uf name -> (opkey, canonical core, placeholders, bound vars)
        self.neg = {}     # memo of semantic comparisons

    def get(self, opkey, core_term, bvars, n_out, e, rng=()):
        """returns app(out_idx) -> z3 term.  The core's free constants (batch indices, N, L, ...) are made explicit
        arguments of the operator symbol, so that substituting a batch index in a result term (vmap / scan-map) is
        sound and so that the same element function at different batch indices shares one symbol."""
        tab = self.tables.setdefault(opkey, [])
        # the operator's own bound variables are renamed to depth-independent canonical ones
        cbv = [canon_bv(j) for j in range(len(bvars))]
        sub_bv = [(v, c) for v, c in zip(bvars, cbv)]
        core_c = z3.substitute(core_term, *sub_bv) if bvars else core_term
        rng = [z3.substitute(r, *sub_bv) for r in rng] if bvars else list(rng)
        core_term = core_c
        bids = {v.get_id() for v in cbv}
        canon, args, phs = _canonical(core_c, bids)
        cid = canon.get_id()
        bvars = cbv
        for ck, it, ia, uf in tab:
            if ck == cid:
                return lambda out, uf=uf, args=args: uf(*(list(args) + [smt.z(o) for o in out]))
        sig = _uf_signature(core_term)
        tried = 0
        for ck, it, ia, uf in (tab if (len(tab) <= 6 and not _NO_SEMANTIC) else []):
            if _uf_signature(it) != sig:
                continue  # cheap necessary condition: same uninterpreted function symbols
            key = (it.get_id(), core_term.get_id(), len(e.pc), len(e.hyps))
            res = self.neg.get(key)
            if res is None:
                if tried >= 3:
                    e.tainted = True  # candidates left uncompared: a later counter-model may be an artefact
                    break  # semantic matching is a completeness aid only: bounded effort
                tried += 1
                st, _ = engine.check_sat(e.pc + e.hyps + list(rng) + [it != core_term], timeout_ms=800, try_abstract=False)
                res = st == "unsat"
                if st == "unknown":
                    e.tainted = True
                self.neg[key] = res
            if res:
                return lambda out, uf=uf, ia=ia: uf(*(list(ia) + [smt.z(o) for o in out]))
        self.count += 1
        doms = [a.sort() for a in args] + [z3.IntSort()] * n_out
        nm = f"{opkey[0]}#{e.path_id}.{self.count}"
        if doms:
            uf = z3.Function(nm, *doms, z3.RealSort())
        else:
            cst = z3.Real(nm)
            uf = _ConstUF(cst)
        tab.append((cid, core_term, args, uf))
        self.info[uf.name()] = (opkey, canon, phs, list(bvars))
        _KEEP.append((canon, core_term))
        return lambda out, uf=uf, args=args: uf(*(list(args) + [smt.z(o) for o in out]))


import os as _os  # noqa: E402

_NO_SEMANTIC = bool(_os.environ.get("SYMJNP_NO_SEMANTIC"))  # debugging aid: syntactic interning only
_SIG_CACHE = {}


def _uf_signature(term):
    i = term.get_id()
    if i in _SIG_CACHE:
        return _SIG_CACHE[i]
    names = set()
    for x in smt.subterms(term):
        if z3.is_app(x) and x.num_args() > 0 and x.decl().kind() == z3.Z3_OP_UNINTERPRETED:
            names.add(x.decl().name())
    r = frozenset(names)
    _SIG_CACHE[i] = r
    _KEEP.append(term)
    return r


class _ConstUF:
    def __init__(self, c):
        self.c = c

    def __call__(self, *a):
        return self.c

    def name(self):
        return self.c.decl().name()


_KEEP = []
_PH = {}


def _placeholder(sort, j):
    key = (sort.name(), j)
    if key not in _PH:
        _PH[key] = z3.Const(f"P!{sort.name()}!{j}", sort)
    return _PH[key]


def _canonical(term, bound_ids):
    """replace the free 0-ary constants of term (in DFS order of first occurrence) by canonical placeholders"""
    order, seen, stack = [], set(), [term]
    visited = set()
    while stack:
        x = stack.pop()
        i = x.get_id()
        if i in visited:
            continue
        visited.add(i)
        if z3.is_app(x):
            if x.num_args() == 0:
                # only index-like constants (fresh element indices, vmap / scan indices, outer bound variables) become
                # explicit arguments; named harness symbols (N, L, dt, ...) stay in the core under their own names
                if x.decl().kind() == z3.Z3_OP_UNINTERPRETED and i not in bound_ids and i not in seen and poly.is_indexlike(x.decl().name()):
                    seen.add(i)
                    order.append(x)
            else:
                stack.extend(reversed(x.children()))
    counts = {}
    subs, phs = [], []
    for c in order:
        sn = c.sort().name()
        j = counts.get(sn, 0)
        counts[sn] = j + 1
        ph = _placeholder(c.sort(), j)
        subs.append((c, ph))
        phs.append(ph)
    canon = z3.substitute(term, *subs) if subs else term
    return canon, order, phs


def size_key(e, sizes):
    """key for a tuple of sizes: symbolic sizes that are provably equal under the path condition share one key"""
    known = getattr(e, "_known_sizes", None)
    if known is None or getattr(e, "_known_sizes_path", None) != e.path_id:
        known = e._known_sizes = []
        e._known_sizes_path = e.path_id
    out = []
    for x in sizes:
        if smt.is_conc(x):
            out.append(x)
            continue
        found = None
        for k in known:
            if k.get_id() == x.get_id():
                found = k
                break
        if found is None:
            for k in known:
                if k.sort() == x.sort() and e.holds(k == x, timeout_ms=2000):
                    found = k
                    break
        if found is None:
            known.append(x)
            found = x
        out.append(("z", found.get_id()))
    return tuple(out)


def interner(e):
    it = getattr(e, "_interner", None)
    if it is None or getattr(e, "_interner_path", None) != e.path_id:
        it = _Interner()
        e._interner = it
        e._interner_path = e.path_id
    return it


def linear_apply(opname, opparams, A, t_axes, family, out_extra):
    """Apply the real-linear operator `opname` along axes t_axes of the REAL array A.
    Returns g(batch_idx, out_idx) -> R-value with
       g = sum_i coef_i(batch) * UF_{core_i}(out_idx)
    where A(batch, X) = sum_i coef_i * core_i(X) is the ring normal form split into index-free coefficient and
    index-dependent core.  opparams (tuple of R-values, e.g. the sizes of the transformed axes) are appended
    to the operator key so that the same core transformed with different sizes is a different symbol."""
    nt = len(t_axes)
    sizes = tuple(dim_term(A.shape[ax]) for ax in t_axes)

    def g(batch_idx, out_idx):
        e = engine.cur()
        bv = bound_vars(family, nt)   # at the nesting depth of this evaluation
        bv_ids = frozenset(v.get_id() for v in bv)
        full, bi = [], iter(batch_idx)
        for ax in range(A.ndim):
            if ax in t_axes:
                full.append(bv[t_axes.index(ax)])
            else:
                full.append(next(bi))
        rng = [z3.And(v >= 0, v < smt.z(sz)) for v, sz in zip(bv, sizes)]
        e.hyps.extend(rng)  # obligations raised while evaluating the argument hold for every transformed index
        try:
            with nested(family):
                t = smt.R(values.coerce(A.at_(tuple(full)), "real"))
        finally:
            del e.hyps[len(e.hyps) - len(rng):]
        if smt.is_conc(t):
            p = poly._const(t)
        else:
            try:
                p = poly.poly(t)
            except poly.PolyTooLarge:
                p = poly._atom(t)
        parts = poly.split(p, bv_ids)
        it = interner(e)
        keyparams = size_key(e, sizes + tuple(opparams))
        acc = 0
        for core in sorted(parts):
            coefp = parts[core]
            core_term = poly.rebuild_mono(core, canonical=True)
            if core_term is None and opname == "SUM":
                # SUM of the constant 1 over the reduced axes = the number of entries (exact)
                cnt = 1
                for sz in sizes:
                    cnt = smt.rmul(cnt, sz)
                c0 = smt.norm(poly.rebuild(parts[core]))
                acc = smt.radd(acc, smt.rmul(c0, cnt))
                continue
            if core_term is None:
                core_term = z3.RealVal(1)
            app = it.get((opname, keyparams), core_term, bv, len(out_idx), e, rng)
            val = app(out_idx)
            coef = poly.rebuild(coefp)
            c = smt.norm(coef)
            acc = smt.radd(acc, smt.rmul(c, val))
        return acc
    return g


def _check_last_axes(x, axes, what):
    nd = x.ndim
    if axes is None:
        raise OutsideSubset(f"{what} without explicit axes")
    axes = tuple(a % nd for a in axes)
    return axes


def rfftn(x, s=None, axes=None, norm=None):
    _u("jnp.fft.rfftn(x, axes) = F (opaque real-linear operator over the listed axes, output last axis n//2+1)")
    X = const_arr(x)
    if X.kind == "complex":
        raise OutsideSubset("rfftn of a complex array (jax raises)")
    if s is not None or norm not in (None, "backward"):
        raise OutsideSubset("rfftn with s= or norm=")
    axes = _check_last_axes(X, axes, "rfftn")
    D = len(axes)
    name = "F" if axes == tuple(range(X.ndim - D, X.ndim)) else f"F{list(axes)}"
    last = axes[-1]
    out_shape = tuple((d // 2 + 1) if ax == last else d for ax, d in enumerate(X.shape))
    gre = linear_apply(name + "re", (), X, axes, "X", None)
    gim = linear_apply(name + "im", (), X, axes, "X", None)
    b_axes = [ax for ax in range(X.ndim) if ax not in axes]

    gsum = linear_apply("SUM", (), X, axes, "S", None)

    def fn(idx):
        b = tuple(idx[ax] for ax in b_axes)
        k = tuple(idx[ax] for ax in axes)
        if all(isinstance(j, int) and j == 0 for j in k):
            # A5 instance: the mean mode of the (unnormalised) rfftn is the sum over all points (and is real)
            _u("A5: rfftn(x)[0,...,0] = sum(x) (real)")
            return CX(gsum(b, ()), 0)
        return CX(gre(b, k), gim(b, k))
    res = SArr(out_shape, fn, "complex")
    res.cong = (name, axes, (), X)   # provenance for the congruence rule  F(a) == F(b)  <==  a == b
    return res


def irfftn(x, s=None, axes=None, norm=None):
    _u("jnp.fft.irfftn(x, s, axes) = IF (opaque real-linear operator in (Re x, Im x); output sizes s)")
    X = const_arr(x)
    if norm not in (None, "backward"):
        raise OutsideSubset("irfftn with norm=")
    axes = _check_last_axes(X, axes, "irfftn")
    D = len(axes)
    if s is None:
        raise OutsideSubset("irfftn without s=")
    s = tuple(s)
    if len(s) != D:
        raise ValueError("irfftn: len(s) != len(axes)")
    name = "IF" if axes == tuple(range(X.ndim - D, X.ndim)) else f"IF{list(axes)}"
    out_shape = list(X.shape)
    for ax, n in zip(axes, s):
        out_shape[ax] = n
    sparams = tuple(dim_term(n) for n in s)
    Xc = X if X.kind == "complex" else X.astype(values.DType("complex"))
    g1 = linear_apply(name + "1", sparams, Xc.real, axes, "K", None)
    g2 = linear_apply(name + "2", sparams, Xc.imag, axes, "K", None)
    b_axes = [ax for ax in range(X.ndim) if ax not in axes]

    def fn(idx):
        b = tuple(idx[ax] for ax in b_axes)
        xo = tuple(idx[ax] for ax in axes)
        return smt.radd(g1(b, xo), g2(b, xo))
    res = SArr(tuple(out_shape), fn, "real")
    res.cong = (name, axes, sparams, Xc)
    return res


# ------------------------------------------------------------------ symbolic reductions
def _reduce_symbolic(op, A, axes, keepdims, where_):
    """SUM/MEAN over symbolic-length axes: linear operators; MAX/MIN: opaque interned aggregates.
    Concrete-length axes in `axes` are reduced together with the symbolic ones (one operator)."""
    out_shape = tuple((1 if i in axes else d) for i, d in enumerate(A.shape)) if keepdims else \
        tuple(d for i, d in enumerate(A.shape) if i not in axes)
    b_axes = [ax for ax in range(A.ndim) if ax not in axes]

    def batch_of(idx):
        if keepdims:
            return tuple(idx[ax] for ax in b_axes)
        return tuple(idx)
    if where_ is not None:
        W = const_arr(where_)
        _, (mw, _m) = values.broadcast_shapes([W.shape, A.shape])
        Aw = A
        if op in ("sum", "mean"):
            masked = values.where(values.broadcast_to(W, A.shape), A, 0)
            if op == "sum":
                return _reduce_symbolic("sum", masked, axes, keepdims, None)
            cnt = _reduce_symbolic("sum", values.where(values.broadcast_to(W, A.shape), 1, 0), axes, keepdims, None)
            tot = _reduce_symbolic("sum", masked, axes, keepdims, None)
            # mean over an empty mask is NaN natively; exact arithmetic leaves the value unconstrained (no obligation)
            return SArr(tot.shape, lambda i: smt.rdiv(tot.at_(i), cnt.at_(i), guard=False), "real")
        raise OutsideSubset(f"{op} with where=")
    if op in ("sum", "mean"):
        _u("jnp.sum/mean over symbolic-length axes = SUM/MEAN (opaque linear operator; MEAN = SUM / count)")
        if A.kind == "complex":
            re = _reduce_symbolic(op, A.real, axes, keepdims, None)
            im = _reduce_symbolic(op, A.imag, axes, keepdims, None)
            return SArr(out_shape, lambda i: CX(re.at_(i), im.at_(i)), "complex")
        Ar = A if A.kind == "real" else A.astype(values.DType("real"))
        # reduced axes of concrete length 1 are fixed at index 0 (summing over them is the identity): canonical operator
        ones = [ax for ax in axes if values.is_one(A.shape[ax])]
        if ones and len(ones) < len(axes):
            keep_axes = [ax for ax in range(A.ndim) if ax not in ones]
            sq = SArr(tuple(A.shape[ax] for ax in keep_axes),
                      (lambda idx, Ar=Ar: Ar.at_(tuple(0 if ax in ones else idx[keep_axes.index(ax)] for ax in range(Ar.ndim)))), "real")
            red = tuple(keep_axes.index(ax) for ax in axes if ax not in ones)
            g0 = linear_apply("SUM", (), sq, red, "S", None)
            g = g0
        else:
            g = linear_apply("SUM", (), Ar, tuple(axes), "S", None)
        if op == "sum":
            return SArr(out_shape, lambda i: g(batch_of(i), ()), "real")
        cnt = 1
        for ax in axes:
            cnt = smt.rmul(cnt, dim_term(A.shape[ax]))
        return SArr(out_shape, lambda i: smt.rdiv(g(batch_of(i), ()), cnt), "real")
    if op in ("max", "min"):
        _u("jnp.max/min over symbolic-length axes = MAX/MIN (opaque aggregate with the bound facts instantiated on demand)")
        ones = [ax for ax in axes if values.is_one(A.shape[ax])]
        if ones and len(ones) < len(axes):
            keep_axes = [ax for ax in range(A.ndim) if ax not in ones]
            sq = SArr(tuple(A.shape[ax] for ax in keep_axes),
                      (lambda idx: A.at_(tuple(0 if ax in ones else idx[keep_axes.index(ax)] for ax in range(A.ndim)))), A.kind)
            g = aggregate_apply(op.upper(), sq, tuple(keep_axes.index(ax) for ax in axes if ax not in ones))
        else:
            g = aggregate_apply(op.upper(), A, tuple(axes))
        return SArr(out_shape, lambda i: g(batch_of(i)), "real")
    raise OutsideSubset(f"{op} over symbolic axis")


values.REDUCE_SYMBOLIC = _reduce_symbolic


def aggregate_apply(opname, A, t_axes):
    """opaque (non-linear) aggregate over axes: interned on the whole element function"""
    nt = len(t_axes)

    def g(batch_idx):
        e = engine.cur()
        bv = bound_vars("S", nt)
        full, bi = [], iter(batch_idx)
        for ax in range(A.ndim):
            full.append(bv[t_axes.index(ax)] if ax in t_axes else next(bi))
        with engine.no_div_guard(), nested("S"):
            t = smt.zr(smt.R(values.coerce(A.at_(tuple(full)), "real")))
        try:
            t = poly.rebuild(poly.poly(t))   # canonical (ring normal) form of the element function
        except poly.PolyTooLarge:
            t = z3.simplify(t)
        sizes = tuple(dim_term(A.shape[ax]) for ax in t_axes)
        keyparams = size_key(e, sizes)
        app = interner(e).get((opname, keyparams), t, bv, 0, e)
        val = app(())
        AGG_TERMS[val.get_id()] = (opname, val, t, bv, [dim_term(A.shape[ax]) for ax in t_axes])
        return val
    return g


PAIR = z3.Function("PAIR", z3.RealSort(), z3.RealSort(), z3.RealSort())


def opaque_apply(opname, A, extra_key=()):
    """uninterpreted (non-linear) operator on a whole array: N(A)[idx] = UF_{id(A)}(idx); congruence by semantic
    interning of A's element function (all axes bound)."""
    A = const_arr(A)
    sizes = tuple(dim_term(d) for d in A.shape)

    def g(out_idx):
        e = engine.cur()
        bv = bound_vars("O", A.ndim)
        rng = [z3.And(v >= 0, v < smt.z(sz)) for v, sz in zip(bv, sizes)]
        e.hyps.extend(rng)
        try:
            with nested("O"):
                el = A.at_(tuple(bv))
        finally:
            del e.hyps[len(e.hyps) - len(rng):]
        def canon_(x):
            x = smt.zr(x)
            try:
                return poly.rebuild(poly.poly(x))
            except poly.PolyTooLarge:
                return x
        if isinstance(el, CX):
            t = PAIR(canon_(el.re), canon_(el.im))
        else:
            t = canon_(smt.R(el))
        keyparams = size_key(e, sizes) + tuple(extra_key)
        app = interner(e).get((opname, keyparams), t, bv, len(out_idx), e, rng)
        return app(out_idx)
    return g


AGG_TERMS = {}  # aggregate application -> (op, term, element function over bound vars, sizes): bound facts on demand


def std(x, axis=None, keepdims=False):
    _u("jnp.std = sqrt(mean((x-mean(x))^2)) over the listed axes")
    X = const_arr(x)
    m = values.reduce_("mean", X, axis, True)
    d = X - m
    v = values.reduce_("mean", d * d, axis, keepdims)
    from .shim import JNP
    return JNP.sqrt(v)


def dot(a, b):
    _u("jnp.dot of two vectors = sum of products")
    A, B = const_arr(a), const_arr(b)
    if isinstance(A, values._Flat):
        A = A.src if A.patch is None else A.unflatten()
        if isinstance(B, values._Flat):
            B = B.src if B.patch is None else B.unflatten()
        return values.reduce_("sum", A * B, None, False)
    if A.ndim == 1 and B.ndim == 1:
        return values.reduce_("sum", A * B, None, False)
    raise OutsideSubset("dot of non-vectors")


def linalg_inv(x):
    _u("jnp.linalg.inv of an n x n matrix, n <= 3 = adjugate / determinant (determinant != 0: division obligation)")
    X = const_arr(x)
    if X.ndim != 2 or not isinstance(X.shape[0], int) or X.shape[0] != X.shape[1] or X.shape[0] > 3 or X.kind == "complex":
        raise OutsideSubset("linalg.inv of non-matrix / symbolic size / n > 3 / complex")
    adj, det = adjugate_det([[smt.R(X.at_((i, j))) for j in range(X.shape[0])] for i in range(X.shape[0])])
    n = X.shape[0]
    rows = [[smt.rdiv(adj[i][j], det) for j in range(n)] for i in range(n)]

    def fn(idx):
        i, j = idx
        if isinstance(i, int) and isinstance(j, int):
            return rows[i][j]
        raise OutsideSubset("symbolic index into linalg.inv result")
    return SArr((n, n), fn, "real")


def adjugate_det(m):
    """adjugate and determinant of a 1x1 / 2x2 / 3x3 matrix of R-values (cofactor expansion)"""
    n = len(m)
    mul, sub, add = smt.rmul, smt.rsub, smt.radd
    if n == 1:
        return [[1]], m[0][0]
    if n == 2:
        (a, b), (c, d) = m
        return [[d, smt.rneg(b)], [smt.rneg(c), a]], sub(mul(a, d), mul(b, c))

    def minor(i, j):
        r = [k for k in range(3) if k != i]
        c = [k for k in range(3) if k != j]
        return sub(mul(m[r[0]][c[0]], m[r[1]][c[1]]), mul(m[r[0]][c[1]], m[r[1]][c[0]]))
    cof = [[minor(i, j) if (i + j) % 2 == 0 else smt.rneg(minor(i, j)) for j in range(3)] for i in range(3)]
    det = add(add(mul(m[0][0], cof[0][0]), mul(m[0][1], cof[0][1])), mul(m[0][2], cof[0][2]))
    return [[cof[j][i] for j in range(3)] for i in range(3)], det


def repeat(a, repeats, axis=None):
    _u("jnp.repeat(a, r, axis)[.., j, ..] = a[.., j // r, ..]")
    A = const_arr(a)
    if axis is None:
        raise OutsideSubset("repeat without axis")
    axis = axis % A.ndim
    r = repeats
    shape = A.shape[:axis] + (A.shape[axis] * r,) + A.shape[axis + 1:]
    rt = dim_term(r)

    def fn(idx):
        j = idx[axis]
        if values.is_one(A.shape[axis]):
            q = 0  # every output entry along the axis is a copy of the single input entry
        else:
            q = smt.rfloordiv(j, rt) if not (isinstance(j, int) and isinstance(rt, int)) else j // rt
        return A.at_(idx[:axis] + (q,) + idx[axis + 1:])
    return SArr(shape, fn, A.kind)


def pad(a, pad_width, mode="constant"):
    _u("jnp.pad(mode='wrap') periodic extension")
    A = const_arr(a)
    if mode != "wrap":
        raise OutsideSubset("pad mode other than wrap")
    pw = [tuple(p) for p in pad_width]
    if len(pw) != A.ndim:
        raise OutsideSubset("pad_width rank")
    shape = tuple(d + p[0] + p[1] for d, p in zip(A.shape, pw))

    def fn(idx):
        src = []
        for i, d, (lo, hi) in zip(idx, A.shape, pw):
            if lo == 0 and hi == 0:
                src.append(i)
                continue
            dt = dim_term(d)
            j = smt.rsub(i, lo)
            # wrap: (i - lo) mod d, pads never exceed one period in the repo's use (obligation)
            jj = smt.rite(smt.rlt(j, 0), smt.radd(j, dt), smt.rite(smt.rge(j, dt), smt.rsub(j, dt), j))
            src.append(jj if isinstance(jj, int) else smt.norm(z3.simplify(jj)))
        return A.at_(tuple(src))
    e = engine.cur()
    for d, (lo, hi) in zip(A.shape, pw):
        if lo or hi:
            e.prove("pad(wrap): pad widths do not exceed the axis length", smt.band(smt.rle(lo, dim_term(d)), smt.rle(hi, dim_term(d))), kind="requires")
    return SArr(shape, fn, A.kind)


def flip(a, axis=None):
    _u("jnp.flip(a, axis)[.., j, ..] = a[.., n-1-j, ..]")
    A = const_arr(a)
    axes = values.norm_axes(axis, A.ndim)

    def fn(idx):
        src = list(idx)
        for ax in axes:
            v = smt.rsub(smt.rsub(dim_term(A.shape[ax]), 1), idx[ax])
            src[ax] = v if isinstance(v, int) else smt.norm(z3.simplify(v))
        return A.at_(tuple(src))
    return SArr(A.shape, fn, A.kind)


# ------------------------------------------------------------------------------- vmap
def _tree_map(f, *trees):
    import jax.tree_util as jtu
    return jtu.tree_map(f, *trees, is_leaf=lambda x: isinstance(x, SArr))


def vmap(f, in_axes=0, out_axes=0):
    def mapped(*args):
        _u("jax.vmap(f, in_axes) = map over the mapped axis (concrete length: unrolled; symbolic: uniform in the batch index)")
        axes = in_axes if isinstance(in_axes, (tuple, list)) else (in_axes,) * len(args)
        if len(axes) != len(args):
            raise ValueError("vmap in_axes must match the number of arguments")
        if out_axes != 0:
            raise OutsideSubset("vmap out_axes != 0")
        n = None
        for a, ax in zip(args, axes):
            if ax is None:
                continue
            if ax != 0:
                raise OutsideSubset("vmap over a non-leading axis")
            import jax.tree_util as jtu
            for leaf in jtu.tree_leaves(a, is_leaf=lambda x: isinstance(x, SArr)):
                leaf = const_arr(leaf)
                if leaf.ndim == 0:
                    raise ValueError("vmap was requested to map its argument along axis 0, which implies rank >= 1")
                d = leaf.shape[0]
                if n is None:
                    n = d
                elif not values.dims_equal(n, d):
                    raise ValueError("vmap got inconsistent sizes for array axes to be mapped")
        if n is None:
            raise ValueError("vmap must have at least one non-None value in in_axes")
        if isinstance(n, int):
            outs = []
            for j in range(n):
                call = [a if ax is None else _tree_map(lambda l, j=j: const_arr(l)[j], a) for a, ax in zip(args, axes)]
                outs.append(f(*call))
            return _tree_map(lambda *ls: values.stack(list(ls), 0), *outs)
        # symbolic batch size: run once at a symbolic batch index, then substitute
        return _symbolic_map(lambda b: f(*[a if ax is None else _tree_map(lambda l: values.getitem(const_arr(l), b), a)
                                           for a, ax in zip(args, axes)]), n, "vb")
    return mapped


def _symbolic_map(body, n, tag):
    """out[j] = body(j) for 0 <= j < n (n symbolic): body is executed once on a symbolic index and must be
    uniform in it (no python branch may depend on the index)"""
    e = engine.cur()
    b = z3.Int(e.fresh_name(tag))
    npc = len(e.pc)
    bound = z3.And(b >= 0, b < smt.z(dim_term(n)))
    e.hyps.append(bound)
    try:
        out = body(b)
    finally:
        e.hyps.pop()
    bid = frozenset([b.get_id()])
    for c in e.pc[npc:]:
        if poly.contains_any(c, bid):
            raise OutsideSubset("mapped body branches on the batch / loop index")

    def lift(r):
        r = const_arr(r)

        def fn(idx):
            e2 = engine.cur()
            e2.hyps.append(bound)
            try:
                v = r.at_(idx[1:])
            finally:
                e2.hyps.pop()
            return subst_elem(v, b, idx[0])
        return SArr((n,) + r.shape, fn, r.kind)
    return _tree_map(lift, out)


def subst_elem(v, var, val):
    valz = smt.z(val)

    def s(t):
        if isinstance(t, z3.ExprRef):
            return smt.norm(z3.substitute(t, (var, valz)))
        return t
    if isinstance(v, CX):
        return CX(s(v.re), s(v.im))
    return s(v)


# ------------------------------------------------------------------------------- scan
SCAN_RULES: list = []  # rules supplied by the contract under verification (consumed in order)


class scan_rules:
    def __init__(self, *rules):
        self.rules = list(rules)

    def __enter__(self):
        self.saved = list(SCAN_RULES)
        SCAN_RULES[:] = self.rules

    def __exit__(self, *a):
        SCAN_RULES[:] = self.saved


def scan(f, init, xs=None, length=None):
    _u("jax.lax.scan(f, init, xs) = left fold; symbolic trip count only through a contract-supplied invariant")
    import jax.tree_util as jtu
    leaves = jtu.tree_leaves(xs, is_leaf=lambda x: isinstance(x, SArr)) if xs is not None else []
    n = length
    for l in leaves:
        l = const_arr(l)
        n = l.shape[0] if n is None else n
    if SCAN_RULES:
        rule = SCAN_RULES.pop(0)
        return rule(f, init, xs, n)
    if isinstance(n, int):
        carry, ys = init, []
        for j in range(n):
            x = _tree_map(lambda l: const_arr(l)[j], xs) if xs is not None else None
            carry, y = f(carry, x)
            ys.append(y)
        if ys and ys[0] is not None:
            ys = _tree_map(lambda *ls: values.stack(list(ls), 0), *ys)
        else:
            ys = None
        return carry, ys
    if init is None:
        # stateless scan = map over the scanned index
        def body(j):
            x = _tree_map(lambda l: values.getitem(const_arr(l), j), xs) if xs is not None else None
            carry, y = f(None, x)
            if carry is not None:
                raise OutsideSubset("scan with None init returned a carry")
            return y
        return None, _symbolic_map(body, n, "sj")
    raise OutsideSubset("lax.scan with a symbolic trip count and no invariant supplied by the contract")


def dynamic_slice_in_dim(operand, start_index, slice_size, axis=0):
    _u("lax.dynamic_slice_in_dim(x, i, n, axis) = x[clamp(i, 0, len-n) : +n] along axis")
    A = const_arr(operand)
    axis = axis % A.ndim
    d = dim_term(A.shape[axis])
    st = smt.R(start_index)
    n = slice_size
    nt = dim_term(n)
    hi = smt.rsub(d, nt)
    cl = smt.rite(smt.rlt(st, 0), 0, smt.rite(smt.rgt(st, hi), hi, st))
    shape = A.shape[:axis] + (n,) + A.shape[axis + 1:]

    def fn(idx):
        j = smt.radd(idx[axis], cl)
        j = j if isinstance(j, int) else smt.norm(z3.simplify(j))
        return A.at_(idx[:axis] + (j,) + idx[axis + 1:])
    return SArr(shape, fn, A.kind)


# ----------------------------------------------------------------------------- random
class Key:
    """abstract PRNG key: identity = structural tag"""

    def __init__(self, tag):
        self.tag = tag

    def __iter__(self):
        # `k1, k2 = jr.split(key)` goes through key_split; a bare key is not iterable
        raise TypeError("PRNG key is not iterable")

    def __repr__(self):
        return f"Key{self.tag}"

    def __eq__(self, o):
        return isinstance(o, Key) and o.tag == self.tag

    def __hash__(self):
        return hash(self.tag)


class KeyArray:
    """result of split(key, n): n may be symbolic; element j is Key(('split', parent, j))"""

    def __init__(self, parent, n):
        self.parent, self.n = parent, n
        self.shape = (n,)

    def __getitem__(self, j):
        if isinstance(j, int):
            if isinstance(self.n, int) and not (-self.n <= j < self.n):
                raise IndexError(j)
            if j < 0:
                j = self.n + j
            return Key(("split", self.parent.tag, j))
        if isinstance(j, SInt):
            return Key(("split", self.parent.tag, ("z", j.t.get_id(), str(j.t))))
        if isinstance(j, z3.ArithRef):
            return Key(("split", self.parent.tag, ("z", j.get_id(), str(j))))
        raise OutsideSubset("key array index")

    def __iter__(self):
        if not isinstance(self.n, int):
            raise OutsideSubset("iterating over a symbolic number of keys")
        return iter([self[j] for j in range(self.n)])

    def __len__(self):
        if not isinstance(self.n, int):
            raise OutsideSubset("len of symbolic key array")
        return self.n


def key_split(key, num=2):
    _u("jax.random.split(key, n)[j] = a key determined by (key, j); distinct j give independent streams")
    if not isinstance(key, Key):
        raise OutsideSubset("split of a non-key")
    return KeyArray(key, num)


_RND_UF = {}


def _rnd(key, shape, dist):
    if not isinstance(key, Key):
        raise OutsideSubset("random draw from a non-key")
    shape = (shape,) if isinstance(shape, (int, SInt)) else tuple(shape)
    nm = f"RND_{dist}[{key.tag}]/{len(shape)}"
    if nm not in _RND_UF:
        _RND_UF[nm] = z3.Function(nm, *([z3.IntSort()] * len(shape)), z3.RealSort()) if shape else z3.Real(nm)
    uf = _RND_UF[nm]

    def fn(idx):
        return uf(*[smt.z(i) for i in idx]) if shape else uf
    return SArr(shape, fn, "real"), uf


def rnd_uniform(key, shape=(), minval=0.0, maxval=1.0):
    _u("jax.random.uniform(key, shape, minval, maxval) = minval + (maxval-minval)*U_key(idx), 0 <= U < 1")
    base, uf = _rnd(key, shape, "U")
    lo, hi = smt.R(minval), smt.R(maxval)

    def fn(idx):
        u = base.at_(idx)
        e = engine.cur()
        fact = z3.And(u >= 0, u < 1)
        if not any(fact.get_id() == c.get_id() for c in e.pc):
            e.pc.append(fact)
        return smt.radd(lo, smt.rmul(smt.rsub(hi, lo), u))
    return SArr(base.shape, fn, "real")


def rnd_normal(key, shape=()):
    _u("jax.random.normal(key, shape) = G_key(idx) (unconstrained real)")
    base, _ = _rnd(key, shape, "N")
    return base
