"""Loop proof rules for lax.scan with a symbolic trip count (DESIGN 2.4).

ITER[g](j, u0) denotes the j-fold application of g to u0, defined by
    ITER[g](0, u0) = u0,      ITER[g](j+1, u0) = g(ITER[g](j, u0) [, aux_j]).
It is represented by an uninterpreted symbol per (g, u0) (u0 interned semantically); the *iteration rule* executes the
real scan body once on the symbolic carry ITER(j) and proves that it returns the unfolded ITER(j+1)."""
from __future__ import annotations

import jax.tree_util as jtu
import z3

from . import engine, ops, smt, values
from .contracts import compare
from .smt import CX
from .values import SArr, const_arr, dim_term


def _leaves(tree):
    return jtu.tree_leaves(tree, is_leaf=lambda x: isinstance(x, SArr))


def _tmap(f, *trees):
    return jtu.tree_map(f, *trees, is_leaf=lambda x: isinstance(x, SArr))


def gkey(g):
    """identity of a step function: abstract operators by name, bound methods by (method name, object identity) --
    the same whether the method is the real one or its contract stub"""
    if getattr(g, "name", None):
        return g.name
    if hasattr(g, "__self__"):
        nm = g.__name__
        nm = nm[5:] if nm.startswith("stub_") else nm
        return f"{nm}@{id(g.__self__)}"
    return getattr(g, "__qualname__", None) or f"fn@{id(g)}"


def iter_at(g, u0, j, aux_key=""):
    """pytree with the shape of u0 whose leaves are ITER[g](j, u0); j: int / z3 Int term.  ITER(0) is u0 itself."""
    if isinstance(j, int) and j == 0:
        return u0
    if isinstance(j, int) and engine.CURRENT is not None and engine.CURRENT.concrete is not None and aux_key == "":
        out = u0   # replay mode: unroll the definition
        for _ in range(j):
            out = g(out)
        return out
    leaves0 = [const_arr(l) for l in _leaves(u0)]
    # one combined identity for the whole initial pytree: PAIR-chain of all leaves' elements is the interning key
    out = []
    for li, leaf in enumerate(leaves0):
        nd = leaf.ndim
        bv = ops.bound_vars("O", nd)
        sizes = tuple(dim_term(d) for d in leaf.shape)

        def elem(idx, li=li, leaf=leaf, bv=bv, sizes=sizes, nd=nd):
            e = engine.cur()
            key_terms = []
            for l2 in leaves0:
                bv2 = ops.bound_vars("O", l2.ndim)
                rng = [z3.And(v >= 0, v < smt.z(dim_term(sz))) for v, sz in zip(bv2, l2.shape)]
                e.hyps.extend(rng)
                try:
                    with ops.nested("O"):
                        el = l2.at_(tuple(bv2))
                finally:
                    del e.hyps[len(e.hyps) - len(rng):]
                if isinstance(el, CX):
                    key_terms.append(ops.PAIR(smt.zr(el.re), smt.zr(el.im)))
                elif isinstance(el, (bool, z3.BoolRef)):
                    key_terms.append(smt.zr(smt.R(el)))
                else:
                    key_terms.append(smt.zr(smt.R(el)))
            t = key_terms[0]
            for k in key_terms[1:]:
                t = ops.PAIR(t, k)
            allbv = ops.bound_vars("O", max(l.ndim for l in leaves0))
            keyparams = ops.size_key(e, tuple(dim_term(d) for l in leaves0 for d in l.shape))
            parts = ["re", "im"] if leaf.kind == "complex" else ["v"]
            vals = []
            for part in parts:
                app = ops.interner(e).get((f"ITER[{gkey(g)}{aux_key}].{li}.{part}", keyparams), t, allbv, 1 + nd, e)
                vals.append(app((j,) + tuple(idx)))
            # ITER(0) = u0 (first defining equation), also for a symbolic j
            at0 = False if isinstance(j, int) else smt.req(j, 0)
            if leaf.kind == "complex":
                v = CX(vals[0], vals[1])
                return v if at0 is False else smt.cite(at0, leaf.at_(tuple(idx)), v)
            if leaf.kind == "bool":
                v = vals[0] != 0
                return v if at0 is False else z3.If(at0, smt.z(leaf.at_(tuple(idx))), v)
            return vals[0] if at0 is False else smt.rite(at0, smt.R(leaf.at_(tuple(idx))), vals[0])
        out.append(SArr(leaf.shape, elem, leaf.kind))
    treedef = jtu.tree_structure(u0, is_leaf=lambda x: isinstance(x, SArr))
    return jtu.tree_unflatten(treedef, out)


def trajectory(g, u0, n, first=1, aux_key=""):
    """pytree of arrays (n, ...) with entry i = ITER[g](i + first, u0)"""
    def leaf_traj(leaf_index, leaf):
        leaf = const_arr(leaf)

        def fn(idx):
            j = smt.radd(idx[0], first)
            j = j if isinstance(j, int) else smt.norm(z3.simplify(j))
            it = _leaves(iter_at(g, u0, j, aux_key))[leaf_index]
            return it.at_(tuple(idx[1:]))
        return SArr((n,) + leaf.shape, fn, leaf.kind)
    leaves = _leaves(u0)
    treedef = jtu.tree_structure(u0, is_leaf=lambda x: isinstance(x, SArr))
    return jtu.tree_unflatten(treedef, [leaf_traj(i, l) for i, l in enumerate(leaves)])


def iteration_rule(g, emits, aux=None, aux_constant=None, aux_key=""):
    """scan rule for `carry_{j+1} = g(carry_j [, aux_j])`.
    emits: 'next' (ys[j] = carry_{j+1}, rollout) or None (repeat)."""
    def rule(f, init, xs, n):
        e = engine.cur()
        j = z3.Int(e.fresh_name("sj"))
        e.pc.append(z3.And(j >= 0, j < smt.z(dim_term(n))))
        cj = iter_at(g, init, j, aux_key)
        if xs is not None:
            xj = _tmap(lambda l: values.getitem(const_arr(l), j), xs)
        else:
            xj = None
        out, y = f(cj, xj)
        # definition of ITER: ITER(j+1) = g(ITER(j)[, aux_j]) -- the body must return exactly that
        if aux is not None:
            aj = aux if aux_constant else _tmap(lambda l: values.getitem(const_arr(l), j), aux)
            nxt = g(cj, aj)
        else:
            nxt = g(cj)
        compare(e, "scan step: body(ITER(j), xs[j]) carry == g(ITER(j))  (definition of ITER(j+1))", out, nxt)
        if emits == "next":
            compare(e, "scan step: emitted value == ITER(j+1)", y, nxt)
            ys = trajectory(g, init, n, first=1, aux_key=aux_key)
        else:
            e.prove("scan emits nothing", y is None, kind="invariant")
            ys = None
        return iter_at(g, init, dim_term(n), aux_key), ys
    return rule
