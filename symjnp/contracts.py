"""Contract registry, stubs (callee-by-contract), patching of the real exponax modules and the
per-function verification driver."""
from __future__ import annotations

import contextlib
import importlib
import inspect
import os
import sys

import z3

from . import engine, shim, smt, values
from .engine import Engine
from .smt import CX, OutsideSubset
from .values import SArr, SBool, SFloat, SInt, dim_term, mk_bool

REGISTRY: dict[str, "Contract"] = {}


class Case:
    """one symbolic input configuration of a harness"""

    def __init__(self, label, build):
        self.label, self.build = label, build


class Contract:
    def __init__(self, qualname, *, cases, spec=None, requires=None, raises=(), props=(), layer=1,
                 post=None, inline=(), doc="", invoke=None, axiom_opts=None, key=None, inline_all=False, native_post=None, stub_only=None):
        self.qualname = qualname
        self.key = key or qualname    # registry key (a function may carry, besides its contract, DIRECT property checks)
        self.inline_all = inline_all  # verify with NO callee replaced by its contract (whole call tree executed)
        self.stub_only = None if stub_only is None else set(stub_only)   # with inline_all: the only callees still replaced by their contracts
        self.native_post = native_post  # native_post(real result, *native args) -> list of failure texts (native replay of `post`)
        self.tscale = 1.0             # solver time budget multiplier for this contract (set after construction where needed)
        self.cases = cases            # list[Case]; Case.build(engine) -> (args tuple, kwargs dict)
        self.spec = spec              # spec(*args, **kwargs) -> expected value (also used by the stub)
        self.requires = requires      # requires(*args, **kwargs) -> list[(name, B-value)]
        self.raises = list(raises)    # [(ExcType, cond(*args, **kwargs) -> B-value)]
        self.props = set(props)
        self.layer = layer
        self.post = post              # extra post-condition: post(engine, result, *args, **kwargs)
        self.inline = set(inline)     # qualnames NOT to stub while verifying this contract
        self.doc = doc
        self.invoke = invoke          # how the harness reaches the function (e.g. through a carrier subclass)
        self.axiom_opts = axiom_opts or {}   # extra axiom schemes to instantiate (exp_pairs / trig_pairs)
        self.owner, self.attr, self.orig = resolve(qualname)
        self.sig = inspect.signature(self.orig)
        self.is_init = self.attr == "__init__"
        REGISTRY[self.key] = self

    # ---------------------------------------------------------------- binding
    def bind(self, args, kwargs):
        """normalise a call against the signature of the real function WITHOUT filling in its defaults: an argument the
        caller omits reaches spec / requires / raises as omitted, so that THEIR defaults -- the documented ones -- apply.
        (Filling in the code's own defaults would make every contract follow a changed default silently.)"""
        ba = self.sig.bind(*args, **kwargs)
        return ba.args, ba.kwargs

    # ------------------------------------------------------------------- stub
    def make_stub(self):
        c = self

        def stub(*args, **kwargs):
            e = engine.cur()
            args, kwargs = c.bind(args, kwargs)
            e.assumptions_used.add(f"callee-by-contract: {c.qualname}")
            if c.requires is not None:
                for nm, cond in (c.requires(*args, **kwargs) if not c.is_init else c.requires(*args[1:], **kwargs)):
                    if isinstance(cond, Assumed):
                        e.assumptions_used.add(f"assumed at call sites of {c.qualname}: {nm}")
                        continue
                    if isinstance(cond, ForAll):
                        cond.prove(e, f"call-site requires of {c.qualname}: {nm}")
                        continue
                    e.prove(f"call-site requires of {c.qualname}: {nm}", cond, kind="requires")
            for exc, cond in c.raises:
                cv = cond(*args, **kwargs) if not c.is_init else cond(*args[1:], **kwargs)
                if bool(mk_bool(cv)):
                    raise exc(f"[stub of {c.qualname}] documented rejection")
            r = c.spec(*args, **kwargs) if not c.is_init else c.spec(*args[1:], **kwargs)
            if c.is_init:  # __init__ of a base class: set the fields on self
                for k, v in r.fields.items():
                    setattr(args[0], k, v.obj if isinstance(v, Opaque) else v)
                return None
            return r.build() if isinstance(r, ObjSpec) else r
        stub.__name__ = f"stub_{self.attr}"
        stub.__contract__ = self
        return stub


class Assumed:
    """a requires clause that callers are not asked to prove (reported as an assumption), e.g. `no mode lies exactly
    on the contour circle`"""

    def __init__(self, cond=None):
        self.cond = cond


class ForAll:
    """requires clause `forall idx in shape. pred(idx)`; proved at a fresh symbolic index at call sites"""

    def __init__(self, shape, pred):
        self.shape, self.pred = shape, pred

    def prove(self, e, name):
        idx, hyps = fresh_index(e, self.shape)
        e.hyps.extend(hyps)
        try:
            e.prove(name, self.pred(idx), kind="requires")
        finally:
            del e.hyps[len(e.hyps) - len(hyps):]


def resolve(qualname):
    """'exponax._spectral.fft' or 'exponax.etdrk._etdrk_0.ETDRK0.step_fourier' -> (owner, attr, object)"""
    parts = qualname.split(".")
    for cut in range(len(parts) - 1, 0, -1):
        modname = ".".join(parts[:cut])
        try:
            mod = importlib.import_module(modname)
        except ImportError:
            continue
        owner = mod
        for p in parts[cut:-1]:
            owner = getattr(owner, p)
        attr = parts[-1]
        obj = owner.__dict__[attr] if isinstance(owner, type) else getattr(owner, attr)
        if isinstance(obj, (staticmethod, classmethod)):
            obj = obj.__func__
        return owner, attr, obj
    raise ImportError(qualname)


# ------------------------------------------------------------------------------ patching
def exponax_modules():
    return [m for n, m in list(sys.modules.items()) if (n == "exponax" or n.startswith("exponax.")) and m is not None]


@contextlib.contextmanager
def shimmed():
    """rebind jnp / jax / jr / jtu inside the exponax modules to the contract shim"""
    import jax
    import jax.numpy as real_jnp
    import jax.random as real_jr
    import jax.tree_util as real_jtu
    saved = []
    for m in exponax_modules():
        for k, v in list(m.__dict__.items()):
            new = None
            if v is real_jnp:
                new = shim.JNP
            elif v is jax:
                new = shim.JAX
            elif v is real_jr:
                new = shim.JR
            elif v is real_jtu:
                new = shim.JTU
            if new is not None:
                saved.append((m, k, v))
                m.__dict__[k] = new
    try:
        yield
    finally:
        for m, k, v in saved:
            m.__dict__[k] = v


@contextlib.contextmanager
def stubbed(except_for=(), nothing=False, only=None):
    """replace every contracted function (but `except_for`) by its stub, wherever the exponax modules
    reference it (module globals, class attributes).  nothing=True: no function is replaced (direct checks)"""
    if nothing and not only:
        yield
        return
    saved = []
    skip = set(except_for)
    if only:
        skip = {q for q in REGISTRY if q not in only}
    by_obj = {}
    for q, c in REGISTRY.items():
        if q in skip or c.spec is None:
            continue
        by_obj[id(c.orig)] = c
    stubs = {}
    for m in exponax_modules():
        for k, v in list(m.__dict__.items()):
            c = by_obj.get(id(v))
            if c is not None and not isinstance(c.owner, type):
                st = stubs.setdefault(c.qualname, c.make_stub())
                saved.append(("mod", m, k, v))
                m.__dict__[k] = st
    for q, c in REGISTRY.items():
        if q in skip or c.spec is None or not isinstance(c.owner, type):
            continue
        st = stubs.setdefault(q, c.make_stub())
        saved.append(("cls", c.owner, c.attr, c.owner.__dict__[c.attr]))
        type.__setattr__(c.owner, c.attr, st)
    try:
        yield
    finally:
        for kind, o, k, v in reversed(saved):
            if kind == "mod":
                o.__dict__[k] = v
            else:
                type.__setattr__(o, k, v)


def make_instance(cls, fields):
    """object satisfying the representation invariant stated by `fields` (no constructor is run)"""
    obj = object.__new__(cls)
    for k, v in fields.items():
        object.__setattr__(obj, k, v)
    return obj


# ---------------------------------------------------------------------------- comparison
class ObjSpec:
    """expected object: class (exact) and expected value per field"""

    def __init__(self, cls, fields, check_type=True):
        self.cls, self.fields, self.check_type = cls, fields, check_type

    def build(self):
        def b(v):
            if isinstance(v, ObjSpec):
                return v.build()
            if isinstance(v, Opaque):
                return v.obj
            return v
        return make_instance(self.cls, {k: b(v) for k, v in self.fields.items()})


_idx_counter = [0]


def fresh_index(e, shape, tag="i"):
    """fresh index constants with bounds pushed as hypotheses; returns (idx tuple, hyps)"""
    idx, hyps = [], []
    for d in shape:
        if isinstance(d, int) and d == 1:
            idx.append(0)
            continue
        _idx_counter[0] += 1
        v = z3.Int(f"IX!{tag}{_idx_counter[0]}")
        idx.append(v)
        hyps.append(v >= 0)
        hyps.append(v < smt.z(dim_term(d)))
    return tuple(idx), hyps


def elem_eq(a, b):
    ka, kb = values.kind_of_elem(a), values.kind_of_elem(b)
    if ka == "complex" or kb == "complex":
        return smt.ceq(smt.C(a), smt.C(b))
    if ka == "bool" and kb == "bool":
        if isinstance(a, bool) and isinstance(b, bool):
            return a == b
        return smt.z(a) == smt.z(b)
    return smt.req(smt.R(a), smt.R(b))


def _arrays_equal_silent(e, a, b, timeout_ms=30000):
    """forall idx. a[idx] == b[idx] (shapes included), decided without recording obligations"""
    a, b = values.const_arr(a), values.const_arr(b)
    if a.ndim != b.ndim or (a.kind == "bool") != (b.kind == "bool"):
        return False
    for p, q in zip(a.shape, b.shape):
        if not e.holds(smt.req(dim_term(p), dim_term(q))):
            return False
    small = [ax for ax, d in enumerate(b.shape) if isinstance(d, int) and 1 < d <= 4]
    import itertools
    combos = list(itertools.product(*[range(b.shape[ax]) for ax in small])) if small else [()]
    if len(combos) > 16:
        small, combos = [], [()]
    for combo in combos:
        shp = list(b.shape)
        for ax in small:
            shp[ax] = 1
        idx, hyps = fresh_index(e, shp)
        idx = list(idx)
        for ax, v in zip(small, combo):
            idx[ax] = v
        idx = tuple(idx)
        e.hyps.extend(hyps)
        try:
            with engine.no_div_guard():
                x, g = b.at_(idx), a.at_(idx)
            goal = elem_eq(g, x)
            ok = goal if isinstance(goal, bool) else (engine._ring_identity(goal, e.pc + e.hyps) or e.holds(goal, timeout_ms=timeout_ms))
        finally:
            del e.hyps[len(e.hyps) - len(hyps):]
        if not ok:
            return False
    return True


def compare(e: Engine, name, got, exp, *, enumerate_small=True):
    """emit the obligations `got == exp` (deep)"""
    if isinstance(exp, ObjSpec):
        if exp.check_type and exp.cls is not None:
            e.prove(f"{name}: type is {exp.cls.__name__}", type(got) is exp.cls, kind="ensures")
        for k, v in exp.fields.items():
            if not hasattr(got, k):
                e.prove(f"{name}.{k}: field set", False, kind="ensures")
                continue
            compare(e, f"{name}.{k}", getattr(got, k), v)
        return
    if isinstance(exp, Opaque):
        e.prove(f"{name}: is the object the contract names", exp.same(got), kind="ensures")
        return
    if isinstance(exp, dict):
        ok = isinstance(got, dict) and sorted(got) == sorted(exp)
        e.prove(f"{name}: mapping with keys {sorted(exp)}", ok, kind="ensures")
        if ok:
            for k in sorted(exp):
                compare(e, f"{name}[{k!r}]", got[k], exp[k])
        return
    if isinstance(exp, slice):
        ok = isinstance(got, slice)
        e.prove(f"{name}: is a slice", ok, kind="ensures")
        if ok:
            for part in ("start", "stop", "step"):
                g, x = getattr(got, part), getattr(exp, part)
                if g is None or x is None:
                    e.prove(f"{name}.{part}: == {x}", g is None and x is None, kind="ensures")
                else:
                    compare(e, f"{name}.{part}", g, x)
        return
    if isinstance(exp, (tuple, list)) and not isinstance(exp, SArr):
        ok = isinstance(got, (tuple, list)) and len(got) == len(exp)
        e.prove(f"{name}: sequence of length {len(exp)}", ok, kind="ensures")
        if ok:
            for j, (g, x) in enumerate(zip(got, exp)):
                compare(e, f"{name}[{j}]", g, x)
        return
    if exp is None or isinstance(exp, (str, bool)) and not isinstance(got, (SBool, SArr)):
        e.prove(f"{name}: == {exp!r}", (got is exp) if exp is None else (type(got) is type(exp) and got == exp), kind="ensures")
        return
    if isinstance(exp, SArr) or isinstance(got, SArr):
        if not isinstance(got, SArr) or not isinstance(exp, SArr):
            try:
                got, exp = values.const_arr(got), values.const_arr(exp)
            except OutsideSubset:
                e.prove(f"{name}: is an array", False, kind="ensures")
                return
        if got.ndim != exp.ndim:
            e.prove(f"{name}: rank {exp.ndim} (got shape {got.shape}, expected {exp.shape})", False, kind="ensures")
            return
        sh = True
        for g, x in zip(got.shape, exp.shape):
            sh = smt.band(sh, smt.req(dim_term(g), dim_term(x)))
        if not e.prove(f"{name}: shape == {exp.shape}", sh, kind="ensures"):
            return
        if values.KIND_RANK[got.kind] > values.KIND_RANK[exp.kind] and exp.kind != "bool":
            # e.g. complex where the spec is real: compare as complex (imag must be 0)
            pass
        if (got.kind == "bool") != (exp.kind == "bool"):
            e.prove(f"{name}: boolean-ness of dtype (got {got.kind}, expected {exp.kind})", False, kind="ensures")
            return
        # congruence: got = OP(a), exp = OP(b) for the same (real-)linear transform  <==  forall idx. a[idx] == b[idx]
        cg, cx = getattr(got, "cong", None), getattr(exp, "cong", None)
        if cg is not None and cx is not None and cg[0] == cx[0] and cg[1] == cx[1] and len(cg[2]) == len(cx[2]) \
                and all(e.holds(smt.req(p, q)) for p, q in zip(cg[2], cx[2])) and _arrays_equal_silent(e, cg[3], cx[3]):
            ob = engine.Obligation(f"{e.func_name}::{name}: every element equals the spec (by congruence: the arguments of {cg[0]} are equal for every index)", "ensures")
            ob.path, ob.func, ob.status = e.path_id, e.func_name, "discharged"
            e.obligations.append(ob)
            return
        # small concrete axes (channel / direction axes) are enumerated, the others get a fresh symbolic index
        small = [ax for ax, d in enumerate(exp.shape) if isinstance(d, int) and 1 < d <= 4]
        import itertools
        combos = list(itertools.product(*[range(exp.shape[ax]) for ax in small])) if small else [()]
        if len(combos) > 16:
            small, combos = [], [()]
        for combo in combos:
            shp = list(exp.shape)
            for ax in small:
                shp[ax] = 1
            idx, hyps = fresh_index(e, shp)
            idx = list(idx)
            for ax, v in zip(small, combo):
                idx[ax] = v
            idx = tuple(idx)
            e.hyps.extend(hyps)
            try:
                with engine.no_div_guard():
                    x = exp.at_(idx)
                g = got.at_(idx)
                tag = "" if not small else " at " + ",".join(f"axis{ax}={v}" for ax, v in zip(small, combo))
                e.prove(f"{name}: every element equals the spec{tag}", elem_eq(g, x), kind="ensures")
            finally:
                del e.hyps[len(e.hyps) - len(hyps):]
        return
    # scalars
    if isinstance(got, (SInt, SFloat, int, float)) or isinstance(exp, (SInt, SFloat, int, float)):
        try:
            g, x = smt.R(got), smt.R(exp)
        except OutsideSubset:
            e.prove(f"{name}: scalar", False, kind="ensures")
            return
        e.prove(f"{name}: == spec", smt.req(g, x), kind="ensures")
        return
    if isinstance(exp, SBool) or isinstance(got, SBool):
        e.prove(f"{name}: == spec", smt.z(values.as_b(got)) == smt.z(values.as_b(exp)), kind="ensures")
        return
    if isinstance(exp, complex):
        e.prove(f"{name}: == spec", elem_eq(smt.C(got), smt.C(exp)), kind="ensures")
        return
    e.prove(f"{name}: identical object", got is exp or got == exp, kind="ensures")


class Opaque:
    """spec for a field that must be a particular (opaque) python object, e.g. the nonlinear function passed in"""

    def __init__(self, obj):
        self.obj = obj

    def same(self, got):
        return got is self.obj


# -------------------------------------------------------------------------- verification
EXPECTED_EXC = (ValueError, NotImplementedError, TypeError, IndexError, ZeroDivisionError)
_SHIM_DIR = os.path.dirname(os.path.abspath(__file__))


def _raised_by_the_shim(ex):
    """TypeError / AttributeError-like failures whose innermost frame is verifier code (symjnp/*), or the call of a shim
    function with arguments it does not accept: e.g. `jnp.arange(n, dtype=int)` when the shim's arange has no dtype"""
    if not isinstance(ex, TypeError):
        return False
    tb = ex.__traceback__
    last = None
    while tb is not None:
        last = tb
        tb = tb.tb_next
    fn = last.tb_frame.f_code.co_filename if last is not None else ""
    msg = str(ex)
    if os.path.abspath(fn).startswith(_SHIM_DIR):
        return True
    # the call itself failed to bind (frame of the caller is the last one): decide by the callee named in the message
    if not any(s in msg for s in ("unexpected keyword argument", "positional argument", "required positional")):
        return False
    from . import shim as _shim
    callee = msg.split("(")[0].split(".")[-1].strip()
    names = {getattr(f, "__name__", None) for ns in (_shim.JNP, _shim.JAX, _shim.JAX.lax, _shim.JAX.random, _shim.JNP.fft, _shim.JNP.linalg)
             for f in vars(ns).values() if callable(f)} | {n for n, f in vars(_shim).items() if callable(f)}
    from . import values as _values
    names |= {n for n, f in vars(_values.SArr).items() if callable(f)}
    return callee in names and not callee.startswith("build_")


def verify_contract(c: Contract, *, only_case=None):
    """returns list of Engines (one per case)"""
    engines = []
    for case in c.cases:
        if only_case is not None and case.label != only_case:
            continue
        eng = Engine(f"{c.key}[{case.label}]")
        eng.axiom_opts = dict(c.axiom_opts)

        def harness(e, case=case):
            from . import frame
            frame.reset()           # every path starts from the state the modules were loaded with
            e.sym_rename = None
            e.sym_names = []
            if not invoke_and_check(e, case, ""):
                return
            names, e.sym_names = list(e.sym_names), None
            if e.div_assume:
                # facts were ASSUMED along this path (non-zero denominators): they must not have made it contradictory --
                # an identically-zero denominator would otherwise prove every post-condition vacuously
                e.satisfiable("facts assumed along the path (non-zero denominators) are consistent (vacuity guard, end of path)", lenient=True)
            wr = frame.written()
            if wr:
                # HISTORY: the call wrote module-level state (a cache).  A contract is about every call, not only the first
                # one after import: the function is called again in the state the first call left behind, once per named
                # input symbol with ONLY THAT symbol replaced by a fresh one (a memo whose key leaves out an input the
                # result depends on hits, with a stale value), once with all arrays replaced, and finally with all
                # real-valued / all integer inputs replaced -- each later call must still meet the post-condition.
                e.assumptions_used.add(f"module-level state written by {c.qualname}: {', '.join(wr)} -- later calls checked in that state")
                scal = [n for n, k in names if k in ("int", "real")][:8]
                plans = [({"only": {n}, "suffix": f"~{j + 2}"}, f"later call, only '{n}' changed") for j, n in enumerate(scal)]
                if any(k == "array" for _, k in names):
                    plans.append(({"only": {"<arrays>"}, "suffix": "~a"}, "later call, only the array inputs changed"))
                plans += [({"real": "~r", "int": "", "array": "~r"}, "second call, other real-valued inputs"),
                          ({"real": "", "int": "~i", "array": ""}, "third call, other sizes")]
                for rename, tag in plans:
                    e.sym_rename = rename
                    try:
                        if not invoke_and_check(e, case, f"[{tag}, after a first call that wrote {', '.join(wr)}] "):
                            return
                    finally:
                        e.sym_rename = None

        def invoke_and_check(e, case, tag):
            built = case.build(e)
            ctx = {}
            if isinstance(built, tuple) and len(built) == 3 and isinstance(built[1], dict) and isinstance(built[2], dict):
                args, kwargs, ctx = built
            else:
                args, kwargs = built if isinstance(built, tuple) and len(built) == 2 and isinstance(built[1], dict) else (built, {})
            fn = c.invoke or c.orig
            if c.invoke is not None:
                bargs, bkw = args, kwargs
                try:
                    bargs, bkw = c.bind((None,) + tuple(args), kwargs)
                    bargs = bargs[1:]
                except TypeError:
                    pass
            else:
                bargs, bkw = c.bind(args, kwargs)
            if c.requires is not None:
                for nm, cond in c.requires(*bargs, **bkw):
                    if isinstance(cond, (Assumed, ForAll)):
                        continue  # quantified clauses are built into the harness arrays (sym.array(constraint=...))
                    e.assume(cond if not isinstance(cond, SBool) else cond.t)
            if e.path_id == 0 and not tag:
                e.satisfiable("requires satisfiable (vacuity guard)")
            exc = None
            res = None
            from . import ops as _ops
            if ctx.get("no_div"):
                # divisions whose denominator is non-zero only by a documented assumption on the inputs
                e.div_assume = True
                e.assumptions_used.add(f"denominators in {c.qualname} assumed non-zero: {ctx['no_div']}")
            with shimmed(), stubbed(except_for={c.qualname} | c.inline, nothing=c.inline_all, only=c.stub_only), _ops.scan_rules(*ctx.get("scan_rules", [])):
                try:
                    import io
                    with contextlib.redirect_stdout(io.StringIO()):
                        res = fn(*args, **kwargs)
                except engine.PathAbort:
                    raise
                except OutsideSubset:
                    raise
                except EXPECTED_EXC as ex:
                    if _raised_by_the_shim(ex):
                        # an unsupported call form of a jax function (unknown keyword, unsupported operand type): a limit
                        # of the verifier, never a statement about the code under verification
                        raise OutsideSubset(f"the shim does not model this call: {type(ex).__name__}: {str(ex)[:160]}") from ex
                    exc = ex
            matched = False
            for exc_t, cond in c.raises:
                with engine.no_div_guard():
                    cnd = cond(*bargs, **bkw)
                cnd = cnd.t if isinstance(cnd, SBool) else cnd
                if exc is not None and isinstance(exc, exc_t) and not matched:
                    matched = True
                    e.prove(f"{tag}raises {exc_t.__name__} only under the documented condition", cnd, kind="raises")
                elif exc is None:
                    e.prove(f"{tag}documented {exc_t.__name__} condition is false on the returning path", smt.bnot(cnd), kind="raises")
            if exc is not None and not matched:
                e.prove(f"{tag}unexpected {type(exc).__name__}: {str(exc)[:120]}", False, kind="raises")
                return False
            if exc is None:
                if c.spec is not None:
                    with engine.no_div_guard():
                        exp = c.spec(*bargs, **bkw)
                    if "apply" in ctx:
                        # higher-order result: the returned function is applied to symbolic arguments (under the
                        # shim, with the loop rules of the case) and compared with the spec function's value
                        e.prove(f"{tag}result is callable", callable(res), kind="ensures")
                        with shimmed(), stubbed(except_for={c.qualname} | c.inline, nothing=c.inline_all, only=c.stub_only), _ops.scan_rules(*ctx.get("apply_scan_rules", [])):
                            res = res(*ctx["apply"])
                        with engine.no_div_guard():
                            exp = exp(*ctx["apply"])
                    compare(e, f"{tag}result", res, exp)
                if c.post is not None and not tag:
                    c.post(e, res, *bargs, **bkw)
            return True
        old_scale = engine.TSCALE
        engine.TSCALE = old_scale * c.tscale
        try:
            eng.run(harness)
        finally:
            engine.TSCALE = old_scale
        engines.append(eng)
    return engines
