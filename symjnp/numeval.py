"""Numeric interpreter for symjnp terms (float64): used by the native replay and by the shim conformance check.

A harness run with concrete sizes produces element terms that contain only numerals, PI, the math symbols
(ER, COS, SIN, SQRT, LOG, RPOW, ROUND), input-array symbols and operator symbols (F.., IF.., SUM, MAX, MIN).
Input arrays get pseudo-random values; operator symbols are interpreted by numpy (rfftn / irfftn / sum / max / min)
on the numerically evaluated core that the interner recorded for them."""
from __future__ import annotations

import itertools
import math
import zlib
from fractions import Fraction

import numpy as np
import z3

from . import ops, smt, values
from .smt import CX
from .values import SArr


NUMERIC_UF = {}   # name of an uninterpreted function symbol -> callable(*numeric args) -> float (registered by the specs)


class NumEnv:
    def __init__(self, interner=None, seed=0):
        self.arrays = {}       # uf name -> callable(*idx) -> float
        self.memo = {}
        self.op_cache = {}
        self.interner = interner
        self.seed = seed
        self.keep = []

    # deterministic pseudo-random value for an input-array symbol at an index
    def array_value(self, name, idx):
        f = self.arrays.get(name)
        if f is not None:
            return f(*idx)
        if name.startswith(("NV!", "BV!")):
            raise ValueError(f"index variable {name} has no value here (a decision on a symbolic index in a numeric run)")
        # (zlib.crc32, not hash(): str hashes are randomised per process and a replay must see the same inputs)
        h = zlib.crc32(repr((name, tuple(int(i) for i in idx), self.seed)).encode()) % 2001
        if name.startswith("RND_U["):
            return h / 2001.0      # a uniform draw: 0 <= U < 1
        return (h - 1000) / 800.0

    def ev(self, t):
        if isinstance(t, bool):
            return t
        if isinstance(t, (int, float)):
            return t
        if isinstance(t, Fraction):
            return float(t)
        if isinstance(t, CX):
            return complex(self.ev(t.re), self.ev(t.im))
        i = t.get_id()
        if i in self.memo:
            return self.memo[i]
        r = self._ev(t)
        self.memo[i] = r
        self.keep.append(t)
        return r

    def _ev(self, t):
        if z3.is_int_value(t):
            return t.as_long()
        if z3.is_rational_value(t):
            return t.numerator_as_long() / t.denominator_as_long()
        if z3.is_true(t):
            return True
        if z3.is_false(t):
            return False
        if not z3.is_app(t):
            raise ValueError(f"cannot evaluate {t}")
        k = t.decl().kind()
        ch = t.children()
        if k == z3.Z3_OP_ADD:
            return sum(self.ev(c) for c in ch)
        if k == z3.Z3_OP_MUL:
            r = 1
            for c in ch:
                r = r * self.ev(c)
            return r
        if k == z3.Z3_OP_SUB:
            r = self.ev(ch[0])
            for c in ch[1:]:
                r = r - self.ev(c)
            return r
        if k == z3.Z3_OP_UMINUS:
            return -self.ev(ch[0])
        if k == z3.Z3_OP_DIV:
            d = self.ev(ch[1])
            return self.ev(ch[0]) / d if d != 0 else float("nan")
        if k == z3.Z3_OP_IDIV:
            return int(self.ev(ch[0])) // int(self.ev(ch[1]))
        if k == z3.Z3_OP_MOD:
            return int(self.ev(ch[0])) % int(self.ev(ch[1]))
        if k == z3.Z3_OP_POWER:
            return self.ev(ch[0]) ** self.ev(ch[1])
        if k == z3.Z3_OP_TO_REAL:
            return float(self.ev(ch[0]))
        if k == z3.Z3_OP_TO_INT:
            return math.floor(self.ev(ch[0]))
        if k == z3.Z3_OP_ITE:
            return self.ev(ch[1]) if self.ev(ch[0]) else self.ev(ch[2])
        if k == z3.Z3_OP_AND:
            return all(self.ev(c) for c in ch)
        if k == z3.Z3_OP_OR:
            return any(self.ev(c) for c in ch)
        if k == z3.Z3_OP_NOT:
            return not self.ev(ch[0])
        if k == z3.Z3_OP_IMPLIES:
            return (not self.ev(ch[0])) or self.ev(ch[1])
        if k == z3.Z3_OP_EQ:
            a, b = self.ev(ch[0]), self.ev(ch[1])
            if isinstance(a, bool) or isinstance(b, bool):
                return a == b
            return abs(a - b) <= 1e-12 * max(1.0, abs(a), abs(b))
        if k == z3.Z3_OP_DISTINCT:
            a, b = self.ev(ch[0]), self.ev(ch[1])
            return not (abs(a - b) <= 1e-12 * max(1.0, abs(a), abs(b)))
        if k == z3.Z3_OP_LE:
            return self.ev(ch[0]) <= self.ev(ch[1]) + 1e-12
        if k == z3.Z3_OP_LT:
            return self.ev(ch[0]) < self.ev(ch[1]) - 1e-12
        if k == z3.Z3_OP_GE:
            return self.ev(ch[0]) >= self.ev(ch[1]) - 1e-12
        if k == z3.Z3_OP_GT:
            return self.ev(ch[0]) > self.ev(ch[1]) + 1e-12
        if k == z3.Z3_OP_UNINTERPRETED:
            name = t.decl().name()
            if not ch:
                if name == "PI":
                    return math.pi
                if name == "NAN!":
                    return float("nan")
                if "#" in name:   # operator symbol without parameters and output index (full reduction)
                    return self.operator(t, name, [])
                return self.array_value(name, ())
            if name == "ER":
                return math.exp(self.ev(ch[0]))
            if name == "COS":
                return math.cos(self.ev(ch[0]))
            if name == "SIN":
                return math.sin(self.ev(ch[0]))
            if name == "SQRT":
                v = self.ev(ch[0])
                return math.sqrt(v) if v >= 0 else float("nan")
            if name == "LOG":
                return math.log(self.ev(ch[0]))
            if name == "RPOW":
                return self.ev(ch[0]) ** self.ev(ch[1])
            if name == "ROUND":
                return self.ev(ch[0])  # rounding is not modelled (stated in the shim contract)
            if name == "PAIR":
                return (self.ev(ch[0]), self.ev(ch[1]))
            if "#" in name:
                return self.operator(t, name, [self.ev(c) for c in ch])
            if name in NUMERIC_UF:    # spec-level function symbols with a registered numeric meaning (e.g. contour partial sums)
                return NUMERIC_UF[name](*[self.ev(c) for c in ch])
            if any(c.sort() != z3.IntSort() for c in ch):
                raise ValueError(f"function symbol {name} with real arguments has no numeric interpretation")
            return self.array_value(name, tuple(int(self.ev(c)) for c in ch))
        raise ValueError(f"cannot evaluate operator kind {k}: {t.decl().name()}")

    # ------------------------------------------------------------------ operator symbols
    def operator(self, t, name, argvals):
        info = self.interner.info.get(name) if self.interner is not None else None
        if info is None:
            raise ValueError(f"operator symbol {name} has no recorded core")
        opkey, canon, phs, bvars = info
        opname, keyparams = opkey
        n_params = len(phs)
        pvals, out_idx = argvals[:n_params], [int(v) for v in argvals[n_params:]]
        base = opname.split("[")[0] if opname.startswith("ITER") else opname
        nt = len(bvars)
        sizes = [int(x) for x in keyparams[:nt] if isinstance(x, (int, Fraction))]
        if len(sizes) != nt:
            raise ValueError(f"operator {name}: symbolic sizes in a numeric replay")
        ck = (name, tuple(pvals))
        grid = self.op_cache.get(ck)
        if grid is None:
            grid = np.empty(sizes, dtype=float)
            subs_p = []
            for ph, v in zip(phs, pvals):
                if ph.sort() == z3.IntSort():
                    subs_p.append((ph, z3.IntVal(int(v))))
                else:
                    fr = Fraction(float(v)).limit_denominator(10**12)
                    subs_p.append((ph, z3.RealVal(f"{fr.numerator}/{fr.denominator}")))
            core_p = z3.substitute(canon, *subs_p) if subs_p else canon
            done = False
            if sizes and all(s > 0 for s in sizes):
                # the core is evaluated ONCE over the whole index grid (numpy broadcasting over the bound variables);
                # anything the vectorised evaluator does not cover falls back to the point-by-point loop below
                try:
                    mesh = np.meshgrid(*[np.arange(s) for s in sizes], indexing="ij")
                    bind = {bv.decl().name(): m for bv, m in zip(bvars, mesh)}
                    with np.errstate(all="ignore"):
                        v = _Vec(self, bind).ev(core_p)
                    grid = np.array(np.broadcast_to(np.asarray(v, dtype=float), sizes), dtype=float)
                    done = True
                except _NoVec:
                    done = False
            if not done:
                for pt in itertools.product(*[range(s) for s in sizes]):
                    c = z3.substitute(core_p, *[(bv, z3.IntVal(int(x))) for bv, x in zip(bvars, pt)]) if pt else core_p
                    sub = NumEnv(self.interner, self.seed)
                    sub.arrays = self.arrays
                    sub.op_cache = self.op_cache
                    grid[pt] = sub.ev(c)
            grid = self.transform(opname, grid, keyparams[nt:])
            self.op_cache[ck] = grid
        return float(grid[tuple(out_idx)]) if out_idx else float(grid)

    def transform(self, opname, grid, opparams):
        if opname.startswith("Fre"):
            return np.fft.rfftn(grid).real
        if opname.startswith("Fim"):
            return np.fft.rfftn(grid).imag
        if opname.startswith("IF1"):
            return np.fft.irfftn(grid.astype(complex), s=[int(x) for x in opparams], axes=list(range(grid.ndim)))
        if opname.startswith("IF2"):
            return np.fft.irfftn(1j * grid, s=[int(x) for x in opparams], axes=list(range(grid.ndim)))
        if opname == "SUM":
            return np.asarray(grid.sum())
        if opname == "MAX":
            return np.asarray(grid.max())
        if opname == "MIN":
            return np.asarray(grid.min())
        raise ValueError(f"operator {opname} has no numeric interpretation")


class _NoVec(Exception):
    """the term contains something the vectorised evaluator does not cover"""


class _Vec:
    """the same interpretation as NumEnv._ev, with the bound index variables of an operator core bound to numpy index
    grids: every node of the core is visited once and evaluated for all grid points at a time"""

    def __init__(self, env, bind):
        self.env, self.bind, self.memo, self.keep = env, bind, {}, []

    def ev(self, t):
        if isinstance(t, (bool, int, float)):
            return t
        if isinstance(t, Fraction):
            return float(t)
        i = t.get_id()
        if i in self.memo:
            return self.memo[i]
        r = self._ev(t)
        self.memo[i] = r
        self.keep.append(t)
        return r

    @staticmethod
    def _isarr(v):
        return isinstance(v, np.ndarray)

    def _close(self, a, b):
        a, b = np.asarray(a, dtype=float), np.asarray(b, dtype=float)
        return np.abs(a - b) <= 1e-12 * np.maximum(1.0, np.maximum(np.abs(a), np.abs(b)))

    def _ev(self, t):
        env = self.env
        if z3.is_int_value(t):
            return t.as_long()
        if z3.is_rational_value(t):
            return t.numerator_as_long() / t.denominator_as_long()
        if z3.is_true(t):
            return True
        if z3.is_false(t):
            return False
        if not z3.is_app(t):
            raise _NoVec()
        k = t.decl().kind()
        ch = t.children()
        if k == z3.Z3_OP_ADD:
            r = 0
            for c in ch:
                r = r + self.ev(c)
            return r
        if k == z3.Z3_OP_MUL:
            r = 1
            for c in ch:
                r = r * self.ev(c)
            return r
        if k == z3.Z3_OP_SUB:
            r = self.ev(ch[0])
            for c in ch[1:]:
                r = r - self.ev(c)
            return r
        if k == z3.Z3_OP_UMINUS:
            return -self.ev(ch[0])
        if k == z3.Z3_OP_DIV:
            a, d = self.ev(ch[0]), self.ev(ch[1])
            if not self._isarr(a) and not self._isarr(d):
                return a / d if d != 0 else float("nan")
            d = np.asarray(d, dtype=float)
            return np.where(d != 0, np.asarray(a, dtype=float) / np.where(d != 0, d, 1.0), np.nan)
        if k == z3.Z3_OP_IDIV:
            a, d = self.ev(ch[0]), self.ev(ch[1])
            return np.floor_divide(np.asarray(a).astype(np.int64), np.asarray(d).astype(np.int64)) if (self._isarr(a) or self._isarr(d)) else int(a) // int(d)
        if k == z3.Z3_OP_MOD:
            a, d = self.ev(ch[0]), self.ev(ch[1])
            return np.mod(np.asarray(a).astype(np.int64), np.asarray(d).astype(np.int64)) if (self._isarr(a) or self._isarr(d)) else int(a) % int(d)
        if k == z3.Z3_OP_POWER:
            a, p = self.ev(ch[0]), self.ev(ch[1])
            if self._isarr(a) or self._isarr(p):
                return np.power(np.asarray(a, dtype=float), p)
            return a ** p
        if k == z3.Z3_OP_TO_REAL:
            v = self.ev(ch[0])
            return v.astype(float) if self._isarr(v) else float(v)
        if k == z3.Z3_OP_TO_INT:
            v = self.ev(ch[0])
            return np.floor(v).astype(np.int64) if self._isarr(v) else math.floor(v)
        if k == z3.Z3_OP_ITE:
            c = self.ev(ch[0])
            if not self._isarr(c):
                return self.ev(ch[1]) if c else self.ev(ch[2])
            return np.where(c, self.ev(ch[1]), self.ev(ch[2]))
        if k == z3.Z3_OP_AND:
            r = True
            for c in ch:
                r = np.logical_and(r, self.ev(c))
            return r if self._isarr(r) else bool(r)
        if k == z3.Z3_OP_OR:
            r = False
            for c in ch:
                r = np.logical_or(r, self.ev(c))
            return r if self._isarr(r) else bool(r)
        if k == z3.Z3_OP_NOT:
            v = self.ev(ch[0])
            return np.logical_not(v) if self._isarr(v) else (not v)
        if k == z3.Z3_OP_IMPLIES:
            r = np.logical_or(np.logical_not(self.ev(ch[0])), self.ev(ch[1]))
            return r if self._isarr(r) else bool(r)
        if k in (z3.Z3_OP_EQ, z3.Z3_OP_DISTINCT):
            a, b = self.ev(ch[0]), self.ev(ch[1])
            if isinstance(a, (bool, np.bool_)) or isinstance(b, (bool, np.bool_)) or (self._isarr(a) and a.dtype == bool) or (self._isarr(b) and b.dtype == bool):
                r = np.equal(a, b)
            else:
                r = self._close(a, b)
            r = r if k == z3.Z3_OP_EQ else np.logical_not(r)
            return r if (self._isarr(a) or self._isarr(b)) else bool(r)
        if k in (z3.Z3_OP_LE, z3.Z3_OP_LT, z3.Z3_OP_GE, z3.Z3_OP_GT):
            a, b = self.ev(ch[0]), self.ev(ch[1])
            r = {z3.Z3_OP_LE: lambda: a <= b + 1e-12, z3.Z3_OP_LT: lambda: a < b - 1e-12,
                 z3.Z3_OP_GE: lambda: a >= b - 1e-12, z3.Z3_OP_GT: lambda: a > b + 1e-12}[k]()
            return r if self._isarr(r) else bool(r)
        if k == z3.Z3_OP_UNINTERPRETED:
            name = t.decl().name()
            if not ch:
                if name in self.bind:
                    return self.bind[name]
                return env.ev(t)            # PI, NAN!, parameter-less operator symbols, named scalars: as in the scalar evaluator
            args = [self.ev(c) for c in ch]
            anyarr = any(self._isarr(a) for a in args)
            if not anyarr:
                return self._scalar_app(t, name, args)
            f1 = {"ER": np.exp, "COS": np.cos, "SIN": np.sin, "LOG": np.log}.get(name)
            if f1 is not None:
                return f1(np.asarray(args[0], dtype=float))
            if name == "SQRT":
                a = np.asarray(args[0], dtype=float)
                return np.where(a >= 0, np.sqrt(np.where(a >= 0, a, 0.0)), np.nan)
            if name == "RPOW":
                return np.power(np.asarray(args[0], dtype=float), args[1])
            if name == "ROUND":
                return args[0]
            if name == "PAIR":
                raise _NoVec()
            if "#" in name:
                return self._operator_app(t, name, args)
            if name in NUMERIC_UF:
                return np.vectorize(NUMERIC_UF[name], otypes=[float])(*args)
            if any(c.sort() != z3.IntSort() for c in ch):
                raise _NoVec()
            return np.vectorize(lambda *ix: env.array_value(name, tuple(int(v) for v in ix)), otypes=[float])(*args)
        raise _NoVec()

    def _scalar_app(self, t, name, args):
        """application whose arguments are all scalars here: evaluate through the scalar evaluator's operator / symbol rules"""
        env = self.env
        if name in ("ER", "COS", "SIN", "LOG", "SQRT", "RPOW", "ROUND"):
            f = {"ER": math.exp, "COS": math.cos, "SIN": math.sin, "LOG": math.log}.get(name)
            if f is not None:
                return f(args[0])
            if name == "SQRT":
                return math.sqrt(args[0]) if args[0] >= 0 else float("nan")
            if name == "RPOW":
                return args[0] ** args[1]
            return args[0]
        if name == "PAIR":
            raise _NoVec()
        if "#" in name:
            return env.operator(t, name, args)
        if name in NUMERIC_UF:
            return NUMERIC_UF[name](*args)
        if any(c.sort() != z3.IntSort() for c in t.children()):
            raise _NoVec()
        return env.array_value(name, tuple(int(v) for v in args))

    def _operator_app(self, t, name, args):
        env = self.env
        info = env.interner.info.get(name) if env.interner is not None else None
        if info is None:
            raise _NoVec()
        n_params = len(info[2])
        pvals, out_idx = args[:n_params], args[n_params:]
        if any(self._isarr(p) for p in pvals):
            # the explicit parameters vary over the grid: point by point
            bshape = np.broadcast(*[np.asarray(a) for a in args]).shape
            bargs = [np.broadcast_to(np.asarray(a), bshape) for a in args]
            out = np.empty(bshape, dtype=float)
            for pt in itertools.product(*[range(s) for s in bshape]):
                out[pt] = env.operator(t, name, [a[pt].item() for a in bargs])
            return out
        # one grid for these parameter values, then gather at the (array-valued) output indices
        probe = [0] * len(out_idx)
        env.operator(t, name, list(pvals) + probe)
        grid = env.op_cache[(name, tuple(pvals))]
        if not out_idx:
            return float(grid)
        ix = np.broadcast_arrays(*[np.asarray(a).astype(np.int64) for a in out_idx])
        ok = np.ones(ix[0].shape, dtype=bool)
        for a, s in zip(ix, grid.shape):
            ok &= (a >= 0) & (a < s)
        safe = tuple(np.where(ok, a, 0) for a in ix)
        return np.where(ok, grid[safe], np.nan)


def to_numpy(x, env):
    """concrete-shaped SArr -> numpy array"""
    A = values.const_arr(x)
    shape = tuple(int(d) for d in A.shape)
    dt = complex if A.kind == "complex" else (bool if A.kind == "bool" else float)
    n = 1
    for s in shape:
        n *= s
    if n > 16:
        # the element term is built once for SYMBOLIC indices and evaluated over the whole index grid; any step that needs
        # a concrete index (a Python-level decision in the element function) falls back to the point-by-point loop
        try:
            ivars = [z3.Int(f"NV!{k}") if s > 1 else 0 for k, s in enumerate(shape)]
            el = A.at_(tuple(ivars))
            mesh = np.meshgrid(*[np.arange(s) for s in shape], indexing="ij")
            vec = _Vec(env, {f"NV!{k}": m for k, m in enumerate(mesh) if shape[k] > 1})
            with np.errstate(all="ignore"):
                if isinstance(el, CX):
                    v = np.asarray(vec.ev(el.re), dtype=float) + 1j * np.asarray(vec.ev(el.im), dtype=float)
                else:
                    v = np.asarray(vec.ev(el))
            return np.array(np.broadcast_to(v, shape), dtype=dt)
        except Exception:
            pass
    out = np.empty(shape, dtype=dt)
    for idx in itertools.product(*[range(s) for s in shape]):
        out[idx] = env.ev(A.at_(idx))
    return out
