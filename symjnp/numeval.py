"""Numeric interpreter for symjnp terms (float64): used by the native replay and by the shim conformance check.

A harness run with concrete sizes produces element terms that contain only numerals, PI, the math symbols
(ER, COS, SIN, SQRT, LOG, RPOW, ROUND), input-array symbols and operator symbols (F.., IF.., SUM, MAX, MIN).
Input arrays get pseudo-random values; operator symbols are interpreted by numpy (rfftn / irfftn / sum / max / min)
on the numerically evaluated core that the interner recorded for them."""
from __future__ import annotations

import itertools
import math
import zlib
from fractions import Fraction

import numpy as np
import z3

from . import ops, smt, values
from .smt import CX
from .values import SArr


class NumEnv:
    def __init__(self, interner=None, seed=0):
        self.arrays = {}       # uf name -> callable(*idx) -> float
        self.memo = {}
        self.op_cache = {}
        self.interner = interner
        self.seed = seed
        self.keep = []

    # deterministic pseudo-random value for an input-array symbol at an index
    def array_value(self, name, idx):
        f = self.arrays.get(name)
        if f is not None:
            return f(*idx)
        # (zlib.crc32, not hash(): str hashes are randomised per process and a replay must see the same inputs)
        h = zlib.crc32(repr((name, tuple(int(i) for i in idx), self.seed)).encode()) % 2001
        if name.startswith("RND_U["):
            return h / 2001.0      # a uniform draw: 0 <= U < 1
        return (h - 1000) / 800.0

    def ev(self, t):
        if isinstance(t, bool):
            return t
        if isinstance(t, (int, float)):
            return t
        if isinstance(t, Fraction):
            return float(t)
        if isinstance(t, CX):
            return complex(self.ev(t.re), self.ev(t.im))
        i = t.get_id()
        if i in self.memo:
            return self.memo[i]
        r = self._ev(t)
        self.memo[i] = r
        self.keep.append(t)
        return r

    def _ev(self, t):
        if z3.is_int_value(t):
            return t.as_long()
        if z3.is_rational_value(t):
            return t.numerator_as_long() / t.denominator_as_long()
        if z3.is_true(t):
            return True
        if z3.is_false(t):
            return False
        if not z3.is_app(t):
            raise ValueError(f"cannot evaluate {t}")
        k = t.decl().kind()
        ch = t.children()
        if k == z3.Z3_OP_ADD:
            return sum(self.ev(c) for c in ch)
        if k == z3.Z3_OP_MUL:
            r = 1
            for c in ch:
                r = r * self.ev(c)
            return r
        if k == z3.Z3_OP_SUB:
            r = self.ev(ch[0])
            for c in ch[1:]:
                r = r - self.ev(c)
            return r
        if k == z3.Z3_OP_UMINUS:
            return -self.ev(ch[0])
        if k == z3.Z3_OP_DIV:
            d = self.ev(ch[1])
            return self.ev(ch[0]) / d if d != 0 else float("nan")
        if k == z3.Z3_OP_IDIV:
            return int(self.ev(ch[0])) // int(self.ev(ch[1]))
        if k == z3.Z3_OP_MOD:
            return int(self.ev(ch[0])) % int(self.ev(ch[1]))
        if k == z3.Z3_OP_POWER:
            return self.ev(ch[0]) ** self.ev(ch[1])
        if k == z3.Z3_OP_TO_REAL:
            return float(self.ev(ch[0]))
        if k == z3.Z3_OP_TO_INT:
            return math.floor(self.ev(ch[0]))
        if k == z3.Z3_OP_ITE:
            return self.ev(ch[1]) if self.ev(ch[0]) else self.ev(ch[2])
        if k == z3.Z3_OP_AND:
            return all(self.ev(c) for c in ch)
        if k == z3.Z3_OP_OR:
            return any(self.ev(c) for c in ch)
        if k == z3.Z3_OP_NOT:
            return not self.ev(ch[0])
        if k == z3.Z3_OP_IMPLIES:
            return (not self.ev(ch[0])) or self.ev(ch[1])
        if k == z3.Z3_OP_EQ:
            a, b = self.ev(ch[0]), self.ev(ch[1])
            if isinstance(a, bool) or isinstance(b, bool):
                return a == b
            return abs(a - b) <= 1e-12 * max(1.0, abs(a), abs(b))
        if k == z3.Z3_OP_DISTINCT:
            a, b = self.ev(ch[0]), self.ev(ch[1])
            return not (abs(a - b) <= 1e-12 * max(1.0, abs(a), abs(b)))
        if k == z3.Z3_OP_LE:
            return self.ev(ch[0]) <= self.ev(ch[1]) + 1e-12
        if k == z3.Z3_OP_LT:
            return self.ev(ch[0]) < self.ev(ch[1]) - 1e-12
        if k == z3.Z3_OP_GE:
            return self.ev(ch[0]) >= self.ev(ch[1]) - 1e-12
        if k == z3.Z3_OP_GT:
            return self.ev(ch[0]) > self.ev(ch[1]) + 1e-12
        if k == z3.Z3_OP_UNINTERPRETED:
            name = t.decl().name()
            if not ch:
                if name == "PI":
                    return math.pi
                if name == "NAN!":
                    return float("nan")
                if "#" in name:   # operator symbol without parameters and output index (full reduction)
                    return self.operator(t, name, [])
                return self.array_value(name, ())
            if name == "ER":
                return math.exp(self.ev(ch[0]))
            if name == "COS":
                return math.cos(self.ev(ch[0]))
            if name == "SIN":
                return math.sin(self.ev(ch[0]))
            if name == "SQRT":
                v = self.ev(ch[0])
                return math.sqrt(v) if v >= 0 else float("nan")
            if name == "LOG":
                return math.log(self.ev(ch[0]))
            if name == "RPOW":
                return self.ev(ch[0]) ** self.ev(ch[1])
            if name == "ROUND":
                return self.ev(ch[0])  # rounding is not modelled (stated in the shim contract)
            if name == "PAIR":
                return (self.ev(ch[0]), self.ev(ch[1]))
            if "#" in name:
                return self.operator(t, name, [self.ev(c) for c in ch])
            return self.array_value(name, tuple(int(self.ev(c)) for c in ch))
        raise ValueError(f"cannot evaluate operator kind {k}: {t.decl().name()}")

    # ------------------------------------------------------------------ operator symbols
    def operator(self, t, name, argvals):
        info = self.interner.info.get(name) if self.interner is not None else None
        if info is None:
            raise ValueError(f"operator symbol {name} has no recorded core")
        opkey, canon, phs, bvars = info
        opname, keyparams = opkey
        n_params = len(phs)
        pvals, out_idx = argvals[:n_params], [int(v) for v in argvals[n_params:]]
        base = opname.split("[")[0] if opname.startswith("ITER") else opname
        nt = len(bvars)
        sizes = [int(x) for x in keyparams[:nt] if isinstance(x, (int, Fraction))]
        if len(sizes) != nt:
            raise ValueError(f"operator {name}: symbolic sizes in a numeric replay")
        ck = (name, tuple(pvals))
        grid = self.op_cache.get(ck)
        if grid is None:
            grid = np.empty(sizes, dtype=float)
            subs_p = []
            for ph, v in zip(phs, pvals):
                if ph.sort() == z3.IntSort():
                    subs_p.append((ph, z3.IntVal(int(v))))
                else:
                    fr = Fraction(float(v)).limit_denominator(10**12)
                    subs_p.append((ph, z3.RealVal(f"{fr.numerator}/{fr.denominator}")))
            core_p = z3.substitute(canon, *subs_p) if subs_p else canon
            for pt in itertools.product(*[range(s) for s in sizes]):
                c = z3.substitute(core_p, *[(bv, z3.IntVal(int(x))) for bv, x in zip(bvars, pt)]) if pt else core_p
                sub = NumEnv(self.interner, self.seed)
                sub.arrays = self.arrays
                sub.op_cache = self.op_cache
                grid[pt] = sub.ev(c)
            grid = self.transform(opname, grid, keyparams[nt:])
            self.op_cache[ck] = grid
        return float(grid[tuple(out_idx)]) if out_idx else float(grid)

    def transform(self, opname, grid, opparams):
        if opname.startswith("Fre"):
            return np.fft.rfftn(grid).real
        if opname.startswith("Fim"):
            return np.fft.rfftn(grid).imag
        if opname.startswith("IF1"):
            return np.fft.irfftn(grid.astype(complex), s=[int(x) for x in opparams], axes=list(range(grid.ndim)))
        if opname.startswith("IF2"):
            return np.fft.irfftn(1j * grid, s=[int(x) for x in opparams], axes=list(range(grid.ndim)))
        if opname == "SUM":
            return np.asarray(grid.sum())
        if opname == "MAX":
            return np.asarray(grid.max())
        if opname == "MIN":
            return np.asarray(grid.min())
        raise ValueError(f"operator {opname} has no numeric interpretation")


def to_numpy(x, env):
    """concrete-shaped SArr -> numpy array"""
    A = values.const_arr(x)
    shape = tuple(int(d) for d in A.shape)
    out = np.empty(shape, dtype=complex if A.kind == "complex" else (bool if A.kind == "bool" else float))
    for idx in itertools.product(*[range(s) for s in shape]):
        out[idx] = env.ev(A.at_(idx))
    return out
