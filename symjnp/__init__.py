"""symjnp: symbolic execution of the real exponax code under a jax.numpy contract shim, VCs discharged by z3."""
