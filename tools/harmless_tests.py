"""Run the unedited test suite with each behaviour-preserving refactoring applied (scratch worktree); writes
seeded_inbox/<H>/tests<i>.json.  (The authoring sub-agents ran it too; this is my own confirmation.)"""
import json
import os
import re
import subprocess
import sys

VERIF = os.path.dirname(os.path.dirname(os.path.abspath(__file__)))

for g in sorted(x for x in os.listdir(os.path.join(VERIF, "seeded_inbox")) if x.startswith("H")):
    for i in (1, 2, 3, 4):
        d = os.path.join(VERIF, "seeded_inbox", g)
        patch, out = os.path.join(d, f"patch{i}.diff"), os.path.join(d, f"tests{i}.json")
        if not os.path.exists(patch) or os.path.exists(out):
            continue
        wt = f"/tmp/ht_{g}_{i}"
        subprocess.run(f"git -C /repo worktree remove --force {wt}", shell=True, capture_output=True)
        subprocess.run(f"git -C /repo worktree add -q {wt} HEAD", shell=True, check=True)
        try:
            a = subprocess.run(f"git apply {patch}", cwd=wt, shell=True, capture_output=True, text=True)
            p = subprocess.run("/venv/bin/python -m pytest -q -p no:cacheprovider --timeout=900 -n 6 --deselect tests/test_nonlinear_funs.py::TestGradientNormAdditional::test_2d",
                               cwd=wt, shell=True, capture_output=True, text=True, timeout=5400)
            m = re.findall(r"(\d+ (?:passed|failed)[^\n]*)", p.stdout + p.stderr)
            rec = {"applies": a.returncode == 0, "tests_rc": p.returncode, "tests_summary": m[-1] if m else (p.stdout + p.stderr)[-300:]}
        finally:
            subprocess.run(f"git -C /repo worktree remove --force {wt}", shell=True, capture_output=True)
        json.dump(rec, open(out, "w"), indent=1)
        print(g, i, rec, flush=True)
