"""Behaviour-preserving refactorings (seeded_inbox/H*/patch<i>.diff + equiv<i>.py): confirm that they are harmless
(equiv<i>.py record on the clean tree / compare with the patch; test suite) and run EVERY registered check against
them in a scratch worktree (VERIF_REPO).  A check that exits 1 on such a patch is a false alarm of the machinery.
Writes seeded_inbox/<H>/confirm<i>.json and eval<i>.json."""
import json
import os
import re
import subprocess
import sys
import time

VERIF = os.path.dirname(os.path.dirname(os.path.abspath(__file__)))
PY = "/venv/bin/python"
CLAIMED = [c["property_id"] for c in json.load(open(os.path.join(VERIF, "MANIFEST.json")))["checks"]]


def sh(cmd, cwd, timeout=3600, env=None):
    p = subprocess.run(cmd, cwd=cwd, shell=True, capture_output=True, text=True, timeout=timeout, env=env)
    return p.returncode, (p.stdout + p.stderr)


def run(group, i, tests=True):
    d = os.path.join(VERIF, "seeded_inbox", group)
    patch, equiv = os.path.join(d, f"patch{i}.diff"), os.path.join(d, f"equiv{i}.py")
    if not os.path.exists(patch):
        return
    wt = f"/tmp/hw_{group}_{i}"
    subprocess.run(f"git -C /repo worktree remove --force {wt}", shell=True, capture_output=True)
    subprocess.run(f"git -C /repo worktree add -q {wt} HEAD", shell=True, check=True)
    conf = {"group": group, "index": i, "repo_head": subprocess.run("git -C /repo rev-parse --short HEAD", shell=True, capture_output=True, text=True).stdout.strip()}
    ev = {"property": group, "index": i, "checks": []}
    try:
        os.makedirs(os.path.join(wt, "OUT"), exist_ok=True)
        if os.path.exists(equiv):
            open(os.path.join(wt, "OUT", f"equiv{i}.py"), "w").write(open(equiv).read().replace(f"/tmp/wt_{group}", wt))
            rc, o = sh(f"{PY} OUT/equiv{i}.py record", wt, 3000)
            conf["equiv_record_rc"] = rc
        rc, o = sh(f"git apply {patch}", wt)
        conf["applies"] = rc == 0
        if rc == 0:
            if os.path.exists(equiv):
                rc, o = sh(f"{PY} OUT/equiv{i}.py compare", wt, 3000)
                conf["equiv_compare_rc"] = rc
                conf["equiv_tail"] = o[-300:]
            if tests:
                rc, o = sh(f"{PY} -m pytest -q -p no:cacheprovider --timeout=900 -n 6 -x --deselect tests/test_nonlinear_funs.py::TestGradientNormAdditional::test_2d", wt, 3600)
                conf["tests_rc"] = rc
                m = re.findall(r"(\d+ (?:passed|failed)[^\n]*)", o)
                conf["tests_summary"] = m[-1] if m else o[-300:]
            conf["confirmed"] = bool(conf.get("equiv_record_rc", 0) == 0 and conf.get("equiv_compare_rc", 0) == 0 and (not tests or conf.get("tests_rc") == 0))
            env = dict(os.environ, VERIF_REPO=wt, SYMJNP_CACHE_DIR=f"/tmp/hw_cache_{group}_{i}", SYMJNP_EVIDENCE_DIR="/tmp/seeded_evidence")
            for p in CLAIMED:
                t0 = time.time()
                try:
                    q = subprocess.run([os.path.join(VERIF, "check"), p], cwd=VERIF, env=env, capture_output=True, text=True, timeout=5400)
                    out, rc = q.stdout + q.stderr, q.returncode
                except subprocess.TimeoutExpired:
                    out, rc = "timeout", 4
                lines = out.strip().splitlines()
                ev["checks"].append({"property": p, "exit": rc, "violations": sum(1 for l in lines if l.startswith("VIOLATION")),
                                     "first": [l[:400] for l in lines if l.startswith(("VIOLATION", "TOOL-ERROR", "UNDECIDED"))][:3],
                                     "summary": lines[-1][:300] if lines else "", "wall_s": round(time.time() - t0, 1)})
            ev["false_alarms"] = [c["property"] for c in ev["checks"] if c["exit"] == 1]
            ev["not_decided"] = [f"{c['property']}:exit{c['exit']}" for c in ev["checks"] if c["exit"] not in (0, 1)]
    finally:
        subprocess.run(f"git -C /repo worktree remove --force {wt}", shell=True, capture_output=True)
        subprocess.run(f"rm -rf /tmp/hw_cache_{group}_{i}", shell=True)
    json.dump(conf, open(os.path.join(d, f"confirm{i}.json"), "w"), indent=1)
    json.dump(ev, open(os.path.join(d, f"eval{i}.json"), "w"), indent=1)
    print(group, i, "harmless confirmed" if conf.get("confirmed") else f"NOT CONFIRMED {conf}", "| false alarms:", ev.get("false_alarms"), "| not decided:", ev.get("not_decided"),
          "| wall", sum(c["wall_s"] for c in ev["checks"]), flush=True)


if __name__ == "__main__":
    tests = "--no-tests" not in sys.argv
    args = [a for a in sys.argv[1:] if not a.startswith("--")]
    groups = args or sorted(g for g in os.listdir(os.path.join(VERIF, "seeded_inbox")) if g.startswith("H"))
    for g in groups:
        g, _, sel = g.partition(":")      # "H2:3,4" = only patches 3 and 4 of group H2
        for i in ([int(x) for x in sel.split(",")] if sel else (1, 2, 3, 4)):
            try:
                run(g, i, tests)
            except Exception as ex:
                print(g, i, "ERROR", ex, flush=True)
