"""Confirm seeded changes: in a scratch worktree of /repo, (1) the patch applies, (2) the demo fails with it and passes
without it, (3) the test suite has no new failures with it.  Writes seeded_inbox/<P>/confirm<i>.json."""
import json, os, subprocess, sys, glob, re, time

VERIF = os.path.dirname(os.path.dirname(os.path.abspath(__file__)))
PY = "/venv/bin/python"
BASELINE_FAIL = {"tests/test_nonlinear_funs.py::TestGradientNormAdditional::test_2d"}


def sh(cmd, cwd, timeout=3000):
    p = subprocess.run(cmd, cwd=cwd, shell=True, capture_output=True, text=True, timeout=timeout)
    return p.returncode, (p.stdout + p.stderr)[-3000:]


def confirm(prop, i, jobs):
    d = os.path.join(VERIF, "seeded_inbox", prop)
    patch, demo = os.path.join(d, f"patch{i}.diff"), os.path.join(d, f"demo{i}.py")
    out = os.path.join(d, f"confirm{i}.json")
    if not os.path.exists(patch) or os.path.exists(out):
        return
    wt = f"/tmp/sw_{prop}_{i}"
    subprocess.run(f"git -C /repo worktree remove --force {wt}", shell=True, capture_output=True)
    subprocess.run(f"git -C /repo worktree add -q {wt} HEAD", shell=True, check=True)
    rec = {"property": prop, "index": i, "repo_head": subprocess.run("git -C /repo rev-parse --short HEAD", shell=True, capture_output=True, text=True).stdout.strip()}
    try:
        os.makedirs(os.path.join(wt, "OUT"), exist_ok=True)
        # (demos written by the sub-agents name their own scratch worktree; point them at this one)
        open(os.path.join(wt, "OUT", f"demo{i}.py"), "w").write(open(demo).read().replace(f"/tmp/wt_{prop}", wt))
        rc, o = sh(f"{PY} OUT/demo{i}.py", wt, 1800)
        rec["demo_clean_rc"] = rc
        rc, o = sh(f"git apply {patch}", wt)
        if rc != 0:
            rc, o = sh(f"git apply --3way {patch}", wt)
        rec["applies"] = rc == 0
        rec["apply_out"] = o[-300:]
        if rc == 0:
            rc, o = sh(f"{PY} OUT/demo{i}.py", wt, 1800)
            rec["demo_patched_rc"] = rc
            rec["demo_patched_tail"] = o[-500:]
            rc, o = sh(f"{PY} -m pytest -q -p no:cacheprovider --timeout=900 -n {jobs} -x --deselect tests/test_nonlinear_funs.py::TestGradientNormAdditional::test_2d", wt, 3000)
            rec["tests_rc"] = rc
            m = re.findall(r"(\d+ (?:passed|failed)[^\n]*)", o)
            rec["tests_summary"] = m[-1] if m else o[-300:]
        rec["confirmed"] = bool(rec.get("applies") and rec.get("demo_clean_rc") == 0 and rec.get("demo_patched_rc", 0) != 0 and rec.get("tests_rc") == 0)
    finally:
        subprocess.run(f"git -C /repo worktree remove --force {wt}", shell=True, capture_output=True)
    json.dump(rec, open(out, "w"), indent=1)
    print(prop, i, "confirmed" if rec["confirmed"] else "NOT CONFIRMED", rec.get("tests_summary"), flush=True)


if __name__ == "__main__":
    props = sys.argv[1:] or sorted(os.listdir(os.path.join(VERIF, "seeded_inbox")))
    for p in props:
        for i in (1, 2, 3):
            try:
                confirm(p, i, jobs=int(os.environ.get("CONFIRM_JOBS", "6")))
            except Exception as ex:
                print(p, i, "ERROR", ex, flush=True)
