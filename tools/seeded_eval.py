"""Run the registered checks against each seeded change (scratch worktree of /repo with the patch applied, selected
through VERIF_REPO; /repo itself is not touched).  Writes seeded_inbox/<P>/eval<i>.json."""
import json
import os
import re
import subprocess
import sys
import time

VERIF = os.path.dirname(os.path.dirname(os.path.abspath(__file__)))
CLAIMED = [c["property_id"] for c in json.load(open(os.path.join(VERIF, "MANIFEST.json")))["checks"]]


def run_check(prop, repo, jobs=None):
    env = dict(os.environ, VERIF_REPO=repo, SYMJNP_NO_CACHE="1", SYMJNP_EVIDENCE_DIR=f"/tmp/seeded_evidence")
    t0 = time.time()
    p = subprocess.run([os.path.join(VERIF, "check"), prop], cwd=VERIF, env=env, capture_output=True, text=True, timeout=3600)
    out = p.stdout + p.stderr
    vio = [l for l in out.splitlines() if l.startswith("VIOLATION")]
    return {"property": prop, "exit": p.returncode, "violations": len(vio), "first": [v[:400] for v in vio[:3]],
            "confirmed_natively": sum(1 for v in vio if "no-failing-input-found" not in v),
            "summary": out.strip().splitlines()[-1][:300] if out.strip() else "", "wall_s": round(time.time() - t0, 1)}


def evaluate(prop, i, others=False):
    d = os.path.join(VERIF, "seeded_inbox", prop)
    patch = os.path.join(d, f"patch{i}.diff")
    out = os.path.join(d, f"eval{i}.json")
    if not os.path.exists(patch):
        return
    wt = f"/tmp/se_{prop}_{i}"
    subprocess.run(f"git -C /repo worktree remove --force {wt}", shell=True, capture_output=True)
    subprocess.run(f"git -C /repo worktree add -q {wt} HEAD", shell=True, check=True)
    rec = {"property": prop, "index": i, "checks": []}
    try:
        r = subprocess.run(f"git apply {patch} || git apply --3way {patch}", cwd=wt, shell=True, capture_output=True, text=True)
        rec["applies"] = r.returncode == 0
        if rec["applies"]:
            base = prop.rstrip("bc")        # (second-round directories are named <P>b)
            targets = [base] if base in CLAIMED else []
            for p in targets:
                rec["checks"].append(run_check(p, wt))
            caught = any(c["exit"] == 1 for c in rec["checks"])
            if not caught and others:
                for p in CLAIMED:
                    if p not in targets:
                        c = run_check(p, wt)
                        rec["checks"].append(c)
                        if c["exit"] == 1:
                            break
            rec["caught_by"] = [c["property"] for c in rec["checks"] if c["exit"] == 1]
    finally:
        subprocess.run(f"git -C /repo worktree remove --force {wt}", shell=True, capture_output=True)
    json.dump(rec, open(out, "w"), indent=1)
    print(prop, i, "caught by", rec.get("caught_by"), [(c["property"], c["exit"], c["wall_s"]) for c in rec["checks"]], flush=True)


if __name__ == "__main__":
    others = "--others" in sys.argv
    args = [a for a in sys.argv[1:] if not a.startswith("--")]
    props = args or sorted(os.listdir(os.path.join(VERIF, "seeded_inbox")))
    for p in props:
        p, _, sel = p.partition(":")      # "C03b:3" = only seed 3 of C03b
        for i in ([int(x) for x in sel.split(",")] if sel else (1, 2, 3)):
            try:
                evaluate(p, i, others)
            except Exception as ex:
                print(p, i, "ERROR", ex, flush=True)
