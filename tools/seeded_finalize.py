"""Move confirmed seeded changes from seeded_inbox/<P>/ to seeded/<P>-<i>/ (patch.diff, demo.py, meta.json) and write
seeded/INDEX.md.  meta.json records: which property, what the change needs to manifest (as stated by its author and as
observed by the demonstration), what was run to confirm it, and which check reported it."""
import json
import os
import shutil
import sys

VERIF = os.path.dirname(os.path.dirname(os.path.abspath(__file__)))
INBOX = os.path.join(VERIF, "seeded_inbox")
OUT = os.path.join(VERIF, "seeded")


def load(p):
    try:
        return json.load(open(p))
    except Exception:
        return None


def main():
    os.makedirs(OUT, exist_ok=True)
    rows = []
    for prop in sorted(os.listdir(INBOX)):
        d = os.path.join(INBOX, prop)
        for i in (1, 2, 3, 4):
            patch = os.path.join(d, f"patch{i}.diff")
            if not os.path.exists(patch):
                continue
            meta, conf, ev = load(os.path.join(d, f"meta{i}.json")) or {}, load(os.path.join(d, f"confirm{i}.json")), load(os.path.join(d, f"eval{i}.json"))
            kind = meta.get("kind", "breaking")
            sid = f"{prop}-{i}"
            if not conf or not conf.get("confirmed"):
                rows.append((sid, kind, "not kept: " + ("not confirmed" if conf else "no confirmation run"), "", ""))
                continue
            dst = os.path.join(OUT, sid)
            os.makedirs(dst, exist_ok=True)
            shutil.copy(patch, os.path.join(dst, "patch.diff"))
            for nm in (f"demo{i}.py", f"equiv{i}.py"):
                if os.path.exists(os.path.join(d, nm)):
                    # (the authors hard-coded their scratch worktree; "." = run it from the root of the tree under test)
                    txt = open(os.path.join(d, nm)).read().replace(f"/tmp/wt_{prop}", ".")
                    open(os.path.join(dst, "demo.py" if nm.startswith("demo") else "equiv.py"), "w").write(txt)
            # one of the counterexample files the check wrote for this change (solver model, native replay), trimmed
            rdir = os.path.join(VERIF, "replays", f"scratch-se_{prop}_{i}")
            if os.path.isdir(rdir):
                reps = sorted(os.listdir(rdir))
                best = next((r for r in reps if (load(os.path.join(rdir, r)) or {}).get("confirmed")), reps[0] if reps else None)
                if best:
                    rec = load(os.path.join(rdir, best)) or {}
                    rec["solver_output"] = (rec.get("solver_output") or "")[:1500]
                    json.dump(rec, open(os.path.join(dst, "reported_replay.json"), "w"), indent=1, default=str)
            checks = (ev or {}).get("checks", [])
            caught = [c["property"] for c in checks if c["exit"] == 1]
            out = {
                "id": sid, "kind": kind, "property": meta.get("property", prop),
                "what_it_changes": meta.get("what_it_breaks") or meta.get("what_it_changes"),
                "needs_to_manifest": meta.get("needs_to_manifest"),
                "files_touched": meta.get("files_touched"),
                "author": "fresh sub-agent given only the property text (breaking) / only the refactoring brief (harmless) and a scratch worktree",
                "confirmed_by_me": {
                    "where": "scratch git worktree of /repo under /tmp (removed afterwards), tools/seeded_confirm.py",
                    "repo_head": conf.get("repo_head"), "patch_applies": conf.get("applies"),
                    "demo_exit_on_clean_tree": conf.get("demo_clean_rc"), "demo_exit_with_patch": conf.get("demo_patched_rc"),
                    "demo_tail_with_patch": (conf.get("demo_patched_tail") or "")[-300:],
                    "test_suite_with_patch": conf.get("tests_summary"),
                    **({"equivalence_script_record_exit_on_clean_tree": conf.get("equiv_record_rc"), "equivalence_script_compare_exit_with_patch": conf.get("equiv_compare_rc"),
                        "test_suite_with_patch": ((load(os.path.join(d, f"tests{i}.json")) or {}).get("tests_summary")
                                                  or "run by the authoring sub-agent only (676 passed + the pre-existing failure)"),
                        "test_suite_exit": (load(os.path.join(d, f"tests{i}.json")) or {}).get("tests_rc")}
                       if kind == "harmless" else {}),
                },
                **({"every_check_run": True, "false_alarms": (ev or {}).get("false_alarms"), "not_decided": (ev or {}).get("not_decided")} if kind == "harmless" else {}),
                "checks_run": [{k: c.get(k) for k in ("property", "exit", "violations", "confirmed_natively", "first", "summary", "wall_s")} for c in checks],
                "caught_by": caught,
            }
            json.dump(out, open(os.path.join(dst, "meta.json"), "w"), indent=1)
            exits = ",".join(f"{c['property']}:exit{c['exit']}" for c in checks)
            rows.append((sid, kind, "kept", ",".join(caught) or "-", exits))
    with open(os.path.join(OUT, "INDEX.md"), "w") as f:
        f.write("Seeded changes (DESIGN.md section 11).  To try one by hand:  `git -C /repo apply /verif/seeded/<id>/patch.diff && (cd /verif && ./check <P>);\n"
                "git -C /repo checkout -- .`   The author's demonstration: `cd /repo && /venv/bin/python /verif/seeded/<id>/demo.py` (exit 0 on the clean tree, non-zero with the patch);\n"
                "equivalence scripts of the behaviour-preserving ones: `... equiv.py record` on the clean tree, `... equiv.py compare` with the patch (they write OUT/ref*.pkl: `mkdir -p OUT` first).\n\n")
        f.write("| id | kind | status | reported by (exit 1) | checks run |\n|---|---|---|---|---|\n")
        for r in rows:
            f.write("| " + " | ".join(r) + " |\n")
    print(open(os.path.join(OUT, "INDEX.md")).read())


if __name__ == "__main__":
    main()
