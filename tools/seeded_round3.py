"""Round 3 (two changes per property for nine properties): keep the confirmed changes of seeded_inbox/<P>c/ as
seeded/<P>c-<i>/ (patch.diff, demo.py, meta.json) and append their rows to seeded/INDEX.md.  The result of running the
registered check of the property against a scratch worktree with the patch (VERIF_REPO=<worktree>, no cache) is read from
the one-line summaries the evaluation loop wrote (files given on the command line; a later line for the same id wins)."""
import json, os, re, shutil, sys

VERIF = os.path.dirname(os.path.dirname(os.path.abspath(__file__)))
INBOX, OUT = os.path.join(VERIF, "seeded_inbox"), os.path.join(VERIF, "seeded")
ev = {}
for f in sys.argv[1:]:
    for l in open(f):
        m = re.match(r"(\S+?)(r?) check=(\S+) exit=(\d+) viol=(\d+) native=(\d+) ::\s*(.*)", l.strip())
        if m:
            ev.setdefault(m.group(1), []).append({"property": m.group(3), "exit": int(m.group(4)), "violations": int(m.group(5)), "confirmed_natively": int(m.group(6)),
                                                  "summary": m.group(7)[:300], "verifier": "after the strengthening this change prompted" if m.group(2) else "as committed before this round"})
rows = []
for d in sorted(os.listdir(INBOX)):
    if not d.endswith("c"):
        continue
    for i in (1, 2):
        p = os.path.join(INBOX, d)
        conf = json.load(open(os.path.join(p, f"confirm{i}.json"))) if os.path.exists(os.path.join(p, f"confirm{i}.json")) else None
        if not conf or not conf.get("confirmed"):
            continue
        meta = json.load(open(os.path.join(p, f"meta{i}.json")))
        sid = f"{d}-{i}"
        dst = os.path.join(OUT, sid)
        os.makedirs(dst, exist_ok=True)
        shutil.copy(os.path.join(p, f"patch{i}.diff"), os.path.join(dst, "patch.diff"))
        shutil.copy(os.path.join(p, f"demo{i}.py"), os.path.join(dst, "demo.py"))
        runs = ev.get(sid, [])
        caught = sorted({r["property"] for r in runs if r["exit"] == 1})
        json.dump({"id": sid, "kind": "breaking", "mechanism": meta.get("kind"), "property": d[:-1], "what_it_changes": meta.get("what_it_changes"),
                   "needs_to_manifest": meta.get("needs_to_manifest"), "files_touched": meta.get("files_touched"),
                   "author": "fresh sub-agent given only the property text and a scratch worktree (round 3)",
                   "confirmed_by_me": {"where": "scratch git worktree of /repo under /tmp (removed afterwards), tools/seeded_confirm.py", "repo_head": conf.get("repo_head"),
                                       "patch_applies": conf.get("applies"), "demo_exit_on_clean_tree": conf.get("demo_clean_rc"), "demo_exit_with_patch": conf.get("demo_patched_rc"),
                                       "demo_tail_with_patch": (conf.get("demo_patched_tail") or "")[-300:], "test_suite_with_patch": conf.get("tests_summary")},
                   "checks_run": runs, "caught_by": caught}, open(os.path.join(dst, "meta.json"), "w"), indent=1)
        rows.append((sid, "breaking", "kept", ",".join(caught) or "-", ",".join(f"{r['property']}:exit{r['exit']}" + ("(re-run)" if "after" in r["verifier"] else "") for r in runs) or "not evaluated"))
idx = os.path.join(OUT, "INDEX.md")
txt = open(idx).read()
if "## Round 3" in txt:
    txt = txt[:txt.index("## Round 3")]
txt += "## Round 3\n\n| id | kind | status | reported by | check runs |\n|---|---|---|---|---|\n" + "".join("| " + " | ".join(r) + " |\n" for r in rows)
open(idx, "w").write(txt)
print(len(rows), "kept")
