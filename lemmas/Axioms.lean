/-
The facts about exp / cos / sin / sqrt / pi / real powers that the verifier uses for its uninterpreted symbols
ER, COS, SIN, SQRT, PI, RPOW (symjnp/smt.py: math_axiom_instances; symjnp/poly.py: rewrite rules of the
exponential-polynomial normal form).  Each scheme is restated here over Mathlib's real functions and proved, so the
schemes are checked theorems rather than assumptions.  Checked by `lean lemmas/Axioms.lean` in the thorough tier.

What is NOT here (stays assumed, DESIGN 2.5): A5 (facts about jnp.fft), A6 (aggregates over symbolic-size axes),
A7 (contour quadrature = phi functions).
-/
import Mathlib.Analysis.Real.Pi.Bounds
import Mathlib.Analysis.SpecialFunctions.Trigonometric.Basic
import Mathlib.Analysis.SpecialFunctions.Pow.Real
import Mathlib.Analysis.Complex.Exponential

open Real

namespace ExponaxVerif

/-! ### A1: the real exponential `ER` -/
theorem ER_pos (x : ℝ) : 0 < exp x := exp_pos x
theorem ER_zero : exp (0 : ℝ) = 1 := exp_zero
theorem ER_le_one {x : ℝ} (h : x ≤ 0) : exp x ≤ 1 := exp_le_one_iff.mpr h
theorem ER_lt_one {x : ℝ} (h : x < 0) : exp x < 1 := exp_lt_one_iff.mpr h
theorem ER_one_le {x : ℝ} (h : 0 ≤ x) : 1 ≤ exp x := one_le_exp h
theorem ER_add (a b : ℝ) : exp a * exp b = exp (a + b) := (exp_add a b).symm
theorem ER_neg (a : ℝ) : exp a * exp (-a) = 1 := by
  rw [← exp_add, add_neg_cancel, exp_zero]

/-! ### A1: `COS`, `SIN` -/
theorem COS_SIN_sq (y : ℝ) : cos y * cos y + sin y * sin y = 1 := by
  have h := cos_sq_add_sin_sq y
  nlinarith [h]
theorem COS_zero : cos (0 : ℝ) = 1 := cos_zero
theorem SIN_zero : sin (0 : ℝ) = 0 := sin_zero
theorem COS_neg (a : ℝ) : cos (-a) = cos a := cos_neg a
theorem SIN_neg (a : ℝ) : sin (-a) = -sin a := sin_neg a
theorem COS_add (a b : ℝ) : cos (a + b) = cos a * cos b - sin a * sin b := cos_add a b
theorem SIN_add (a b : ℝ) : sin (a + b) = sin a * cos b + cos a * sin b := sin_add a b
/-- rewrite rule of the normaliser: `SIN(a)^2 -> 1 - COS(a)^2` -/
theorem SIN_sq (a : ℝ) : sin a ^ 2 = 1 - cos a ^ 2 := by
  have h := cos_sq_add_sin_sq a
  linarith

/-! the complex exponential is represented as `EXP(x + i y) = ER(x) * (COS(y) + i SIN(y))` -/
theorem CEXP_re (z : ℂ) : (Complex.exp z).re = exp z.re * cos z.im := Complex.exp_re z
theorem CEXP_im (z : ℂ) : (Complex.exp z).im = exp z.re * sin z.im := Complex.exp_im z

/-! ### A2: `SQRT` -/
theorem SQRT_nonneg (x : ℝ) : 0 ≤ sqrt x := sqrt_nonneg x
theorem SQRT_mul_self {x : ℝ} (h : 0 ≤ x) : sqrt x * sqrt x = x := mul_self_sqrt h

/-! ### A3: bounds on `PI` used by the solver (`314159/100000 < PI < 3927/1250`) -/
theorem PI_lower : (314159 : ℝ) / 100000 < π := by
  have h := pi_gt_d6
  norm_num at h ⊢
  linarith
theorem PI_upper : π < (3927 : ℝ) / 1250 := by
  have h := pi_lt_d6
  norm_num at h ⊢
  linarith

/-! ### A4: real powers `RPOW` -/
theorem RPOW_pos {x : ℝ} (p : ℝ) (h : 0 < x) : 0 < x ^ p := rpow_pos_of_pos h p
theorem RPOW_zero (x : ℝ) : x ^ (0 : ℝ) = 1 := rpow_zero x
theorem RPOW_one (x : ℝ) : x ^ (1 : ℝ) = x := rpow_one x

/-! ### A8: the contour nodes: `exp(2 pi i) = 1`, conjugate pairing of the roots of unity -/
theorem COS_two_pi : cos (2 * π) = 1 := cos_two_pi
theorem SIN_two_pi : sin (2 * π) = 0 := sin_two_pi
/-- node `M-1-j` is the conjugate of node `j`:  angle(M-1-j) = 2π - angle(j) with angle(j) = 2π (j + 1/2)/M -/
theorem node_conj_cos (t : ℝ) : cos (2 * π - t) = cos t := by
  rw [cos_two_pi_sub]
theorem node_conj_sin (t : ℝ) : sin (2 * π - t) = -sin t := by
  rw [sin_two_pi_sub]
theorem node_angle (M j : ℝ) (hM : M ≠ 0) :
    2 * π * ((M - 1 - j) + 1 / 2) / M = 2 * π - 2 * π * (j + 1 / 2) / M := by
  field_simp
  ring

end ExponaxVerif
