"""Level-2 lemmas for C08, C09, C12, C15, C16, C18 (from the contracts' spec functions and listed axioms)."""
from __future__ import annotations

import itertools
from fractions import Fraction

import z3

from specs import etdrk as SE
from specs import ic as SIC
from specs import metrics as SM
from specs import nonlin as SN
from specs import spectral as S
from specs import steppers as SS
from specs.base import T, arr, k_full, k_of, kappa, wshape
from symjnp import poly, smt, sym, values
from symjnp.contracts import ObjSpec, make_instance
from symjnp.lemma import canary, lemma
from symjnp.smt import CX, PI
from symjnp.values import SInt

from .core import A5, A7, Iv, R, ceq


from types import SimpleNamespace as _NS  # noqa: E402


def _zeroth_coefficient_is_zero(p):
    """the generic symbol's j=0 term is D*a_0 (documented convention), hence not embedding invariant: hypothesis a_0 = 0"""
    out = []
    for k in ("linear_coefficients", "normalized_linear_coefficients", "linear_difficulties"):
        if k in p and len(p[k]) > 0:
            out.append(smt.z(smt.req(T(p[k][0]), 0)))
    for k in ("drag", "reactivity", "first_order_coefficient"):
        pass
    return out


def _table():
    from contracts import steppers as CS
    return CS.TABLE


def _entry_params(e, entry, D, v):
    p = dict(entry["params"](e, D, v))
    p.update(v.get("kw", {}))
    p.update(num_spatial_dims=D, num_points=SInt(z3.Int("N")), domain_extent=sym.pos_real(e, "L"), dt=sym.real(e, "dt"))
    return p


def _scalar_variant(v):
    return not any(val in ("vector", "matrix") for val in v.values() if isinstance(val, str))


# ------------------------------------------------------------------------------------------ C08
@lemma("C08.axis_permutation_and_embedding", {"C08"},
       assumes=[A5 + " (shift theorem: Fourier multipliers and pointwise products commute with whole-cell translations)",
                "covariance of the documented continuous nonlinear operators under joint axis / channel permutation (textbook)"])
def _c08(e):
    """for every stepper of the table with isotropic (scalar) parameters: sigma_doc(pi kappa) = sigma_doc(kappa) for every
    axis permutation pi, and sigma_D(kappa,0,..,0) = sigma_1(kappa) (1D embedding along any axis); the dealiasing /
    low-pass masks and the scaling of full axes are invariant under permuting the wavenumber components"""
    e.assume(z3.Int("N") >= 1)
    n = 0
    for entry in _table():
        if entry["cls"].__name__ in ("NavierStokesVorticity", "KolmogorovFlowVorticity", "NavierStokesVelocity", "KolmogorovFlowVelocity", "GeneralVorticityConvectionStepper"):
            dims = [d for d in entry["dims"] if d == (3 if "Velocity" in entry["cls"].__name__ else 2)]
        else:
            dims = list(entry["dims"])
        for v in entry["variants"]:
            if not _scalar_variant(v):
                continue
            sig1 = None
            for D in dims:
                p = _entry_params(e, entry, D, v)
                kap = [R(f"q{d}") for d in range(D)]
                nch = entry.get("lin_channels", lambda p: 1)(p)
                for c in range(nch):
                    base = entry["sigma"](c, kap, p)
                    for perm in itertools.permutations(range(D)):
                        if list(perm) == list(range(D)):
                            continue
                        e.prove(f"{entry['cls'].__name__}{_lab(v)} D={D} ch={c}: sigma(perm{perm} kappa) == sigma(kappa)",
                                ceq(entry["sigma"](c, [kap[i] for i in perm], p), base), kind="lemma")
                        n += 1
                    if D == 1:
                        sig1 = (entry["sigma"], p)
                    elif 1 in dims and c == 0:
                        p1 = _entry_params(e, entry, 1, v)
                        for ax in range(D):
                            emb = [kap[0] if d == ax else 0 for d in range(D)]
                            lhs = entry["sigma"](c, emb, p)
                            rhs = entry["sigma"](c, [kap[0]], p1)
                            if entry.get("normalized") and any(k in p for k in ("linear_difficulties", "difficulty")):
                                continue  # the difficulty reduction carries the documented factor D
                            e.prove(f"{entry['cls'].__name__}{_lab(v)} D={D}: sigma(kappa on axis {ax}, 0 elsewhere) == sigma_1D(kappa)", ceq(lhs, rhs), kind="lemma",
                                    extra_hyps=_zeroth_coefficient_is_zero(p))
                            n += 1
    # masks and wavenumbers
    Nz = z3.Int("N")
    i, j = Iv("i"), Iv("j")
    e.prove("low-pass mask condition is symmetric in the wavenumber components",
            z3.And(smt.z(smt.rabs(i)) <= R("cut"), smt.z(smt.rabs(j)) <= R("cut")) == z3.And(smt.z(smt.rabs(j)) <= R("cut"), smt.z(smt.rabs(i)) <= R("cut")), kind="lemma")
    e.prove("full and halved axes name the same wavenumbers below Nyquist", z3.Implies(z3.And(i >= 0, 2 * i < Nz), smt.z(k_full(i, SInt(Nz))) == i), kind="lemma")
    canary(e, "advection symbol is invariant under kappa -> -kappa", ceq(SS.sym_advection([R("q0")], [R("c")]), SS.sym_advection([-R("q0")], [R("c")])))


def _lab(v):
    return "".join(f"[{k}={val}]" for k, val in v.items() if k != "kw")


# ------------------------------------------------------------------------------------------ C09
CONSERVATIVE = {"Advection", "Diffusion", "AdvectionDiffusion", "Dispersion", "HyperDiffusion", "Burgers", "KortewegDeVries",
                "KuramotoSivashinskyConservative", "KuramotoSivashinsky", "CahnHilliard", "NavierStokesVorticity", "NavierStokesVelocity"}


@lemma("C09.mean_is_conserved", {"C09"},
       assumes=[A5 + " (rfftn at the mean mode is the sum over all points)",
                "NOT DECIDED HERE, assumed: for the non-conservative convection forms, 2D vorticity convection and 3D rotational convection the mean of the convective term "
                "vanishes by (discrete) integration by parts -- in 3D only for DIVERGENCE-FREE velocity fields: mean(u x curl u) = mean(u div u), and the Leray projection "
                "leaves the mean mode untouched, so for a compressible initial state the mean of a 3D velocity Navier-Stokes step does move (observed natively; such states are "
                "outside what the stepper documents as its input, and outside what this lemma covers)", A7])
def _c09_mean(e):
    """(a) sigma_doc(0) = 0 for every conservation-form stepper (zero drag for Navier-Stokes); (b) the documented
    conservative nonlinear terms vanish at the mean mode for EVERY state; (c) then every ETDRK order returns
    u_hat'[0] = u_hat[0]"""
    Nz = z3.Int("N")
    e.assume(Nz >= 1)
    for entry in _table():
        name = entry["cls"].__name__
        if name not in CONSERVATIVE:
            continue
        for v in entry["variants"]:
            for D in entry["dims"]:
                if name.startswith("NavierStokesVo") and D != 2 or name.startswith("NavierStokesVe") and D != 3:
                    continue
                p = _entry_params(e, entry, D, v)
                hyp = [smt.z(smt.req(T(p["drag"]), 0))] if "drag" in p else []
                s0 = entry["sigma"](0, [0] * D, p)
                e.prove(f"{name}{_lab(v)} D={D}: sigma_doc(0) == 0", ceq(s0, CX(0, 0)) if not isinstance(ceq(s0, CX(0, 0)), bool) else z3.BoolVal(True), kind="lemma", extra_hyps=hyp)
    # (b) nonlinear terms at the mean mode
    N = SInt(Nz)
    L = sym.pos_real(e, "L")
    for D in (1, 2, 3):
        dop = S.derivative_operator(D, L, N)
        mask = values.fresh_array("mask", (1,) + wshape(D, N), "bool")
        base = {"num_spatial_dims": D, "num_points": N, "dealiasing_mask": mask}
        dc = (0,) * D
        from exponax import nonlin_fun as NF
        from exponax.stepper.reaction._cahn_hilliard import CahnHilliardNonlinearFun
        for sc in (True, False):
            C = 1 if sc else D
            uh = values.fresh_array("uh", (C,) + wshape(D, N), "complex")
            obj = make_instance(NF.ConvectionNonlinearFun, dict(base, derivative_operator=dop, scale=sym.real(e, "b"), single_channel=sc, conservative=True))
            out = SN.convection(obj, uh)
            for c in range(C):
                e.prove(f"conservative convection (single_channel={sc}) D={D} ch={c}: N(u)[mean mode] == 0 for every u",
                        ceq(out.at_((c,) + dc), CX(0, 0)), kind="lemma")
        uh = values.fresh_array("uh1", (1,) + wshape(D, N), "complex")
        obj = make_instance(NF.GradientNormNonlinearFun, dict(base, derivative_operator=dop, scale=sym.real(e, "b"), zero_mode_fix=True))
        e.hyps.append(mask.at_((0,) + dc) == True)  # noqa: E712  (the mean mode is always retained: cutoff >= 0)
        e.prove(f"gradient norm with mean removal D={D}: N(u)[mean mode] == 0 for every u", ceq(SN.gradient_norm(obj, uh).at_((0,) + dc), CX(0, 0)), kind="lemma",
                extra_hyps=[Nz >= 1])
        e.hyps.pop()
        obj = make_instance(CahnHilliardNonlinearFun, dict(base, scale=sym.real(e, "b"), laplace_operator=S.laplace_operator(dop, 2)))
        e.prove(f"Cahn-Hilliard D={D}: N(u)[mean mode] == 0 for every u", ceq(SN.cahn_hilliard(obj, uh).at_((0,) + dc), CX(0, 0)), kind="lemma")
    # (c) stage formulas at a mode with exp term 1 and vanishing nonlinear term
    u = CX(R("ur"), R("ui"))
    for order in (0, 1, 2, 3, 4):
        f = {"_exp_term": _scal(CX(1, 0)), "_half_exp_term": _scal(CX(1, 0)), "_nonlinear_fun": (lambda x: _scal(CX(0, 0)))}
        for nm in SE.COEFS.get(order, {}):
            f[nm] = _scal(CX(R(nm + "r"), R(nm + "i")))
        obj = _NS(**f)
        out = SE.step(order, obj, _scal(u))
        e.prove(f"ETDRK{order}: with exp term 1 and N == 0 at the mean mode the mean coefficient is unchanged", ceq(out.at_(()), u), kind="lemma")
    canary(e, "non-conservative single-channel convection vanishes at the mean mode syntactically", z3.BoolVal(False))


def _scal(c):
    return arr((), lambda i: c, "complex")


@lemma("C09.constant_equilibria_are_fixed_points", {"C09"}, assumes=[A5 + " (rfftn of a constant)", A7])
def _c09_fixed(e):
    """per mean mode with z = dt*lambda != 0 and a state with N(u) = -lambda*u (spatially constant equilibrium of
    u_t = lambda u + N(u)): every ETDRK order (coefficients = dt * closed forms, A7) returns u"""
    lam, h, u = R("lam"), R("h"), R("u")
    e.assume(z3.And(lam != 0, h != 0))
    dt = 2 * h / lam            # z = lambda*dt = 2h: the half step has exponent h (ER(2h) = ER(h)^2 by the addition theorem)
    z = CX(2 * h, 0)
    E, Eh = smt.cexp(z), smt.cexp(CX(h, 0))
    uu = CX(u, 0)
    dtc = CX(dt, 0)
    with poly.trig_expand():
        e.hyps.append(z3.BoolVal(True))

        def coef(g):
            return smt.cmul(dtc, SE.G[g](z))
        for order in (1, 2, 3, 4):
            f = {"_exp_term": _scal(E), "_half_exp_term": _scal(Eh)}
            for nm, g in SE.COEFS[order].items():
                f[nm] = _scal(coef(g))
            # the nonlinear term evaluated at the equilibrium value (every stage value equals u, proved stage by stage)
            f["_nonlinear_fun"] = lambda x: _scal(smt.cmul(CX(-lam, 0), x.at_(())))
            obj = _NS(**f)
            out = SE.step(order, obj, _scal(uu)).at_(())
            e.prove(f"ETDRK{order}: the equilibrium is a fixed point", ceq(out, uu), kind="lemma")
        e.hyps.pop()
    canary(e, "ETDRK1 maps every state to itself", ceq(smt.cadd(smt.cmul(E, uu), smt.cmul(smt.cmul(dtc, SE.G["phi1"](z)), CX(R("n"), 0))), uu))


@lemma("C09.mean_mode_reaches_the_nonlinear_term", {"C09"}, assumes=[])
def _c09_mean_mode_retained(e):
    """the fixed-point lemma above needs the nonlinear term of a CONSTANT state, i.e. the mean mode must survive the
    dealiasing mask of the nonlinear function (post-condition of BaseNonlinearFun.__init__: |k|_inf <= f*(N//2) - 1).
    For both documented fractions that is so on every grid with N >= 4 -- and it is NOT so for N in {1,2,3}: the mask
    is empty there, the nonlinear term vanishes identically and e.g. FisherKPP's equilibrium u = 1 grows by e^(r dt)
    (native witness in known_findings.json: finding F7).  The two ranges are separate obligations so that the listed
    finding cannot hide a change that empties the band on a larger grid."""
    N = SInt(z3.Int("N"))
    for frac in (Fraction(2, 3), Fraction(1, 2)):
        for D in (1, 2, 3):
            mask = SN.base_fields(D, N, frac)["dealiasing_mask"]
            at_mean = smt.z(mask.at_((0,) * (D + 1)))
            e.prove(f"D={D}, fraction {frac}: the mean mode is retained by the dealiasing mask for every N >= 4",
                    z3.Implies(N.t >= 4, at_mean), kind="lemma")
            if D == 1:
                e.prove(f"fraction {frac}: the mean mode is retained by the dealiasing mask on the grids 1 <= N <= 3",
                        z3.Implies(z3.And(N.t >= 1, N.t <= 3), at_mean), kind="lemma")


# ------------------------------------------------------------------------------------------ C12
@lemma("C12.zero_forcing_and_laminar_response", {"C12"}, assumes=[A5, A7])
def _c12(e):
    """ForcedStepper with f = 0 is the unforced stepper (u + dt*0 = u); from rest, with a forcing F at a mode with
    symbol lambda and vanishing convection, one ETDRK-p step returns dt*phi_1(z)*F (the exact laminar response
    (e^{lambda dt} - 1)/lambda * F) for p = 1..4"""
    u, f0, dt = R("u"), R("f"), R("dt")
    e.prove("u + dt * 0 == u", u + dt * 0 == u, kind="lemma")
    lam, h = R("lam"), R("h")
    e.assume(z3.And(lam != 0, h != 0))
    dt = 2 * h / lam
    z = CX(2 * h, 0)
    F = CX(f0, 0)
    exact = smt.cmul(smt.cdiv(smt.csub(smt.cexp(z), CX(1, 0)), CX(lam, 0)), F)
    with poly.trig_expand():
        e.hyps.append(z3.BoolVal(True))
        for order in (1, 2, 3, 4):
            fld = {"_exp_term": _scal(smt.cexp(z)), "_half_exp_term": _scal(smt.cexp(CX(h, 0)))}
            for nm, g in SE.COEFS[order].items():
                fld[nm] = _scal(smt.cmul(CX(dt, 0), SE.G[g](z)))
            fld["_nonlinear_fun"] = lambda x: _scal(F)   # convection vanishes on the laminar profile: N = forcing only
            out = SE.step(order, _NS(**fld), _scal(CX(0, 0))).at_(())
            e.prove(f"ETDRK{order}: from rest the forced mode receives (e^(lambda dt) - 1)/lambda * F", ceq(out, exact), kind="lemma")
        e.hyps.pop()


# ------------------------------------------------------------------------------------------ C15
@lemma("C15.mean_preserved_by_resolution_change", {"C15"}, assumes=[A5 + " (mean of irfftn(v) = Re v[0] / N^D)"])
def _c15(e):
    """from map_between_resolutions' post-condition: the mean-mode coefficient of the new spectrum is
    (N_new/N_old)^D times the old one, i.e. sum(u_new)/N_new^D == sum(u_old)/N_old^D: the mean of ANY state is preserved"""
    No, Nn = z3.Int("N"), z3.Int("Nnew")
    e.assume(z3.And(No >= 2, Nn >= 2, No != Nn))
    for D in (1, 2, 3):
        old0 = R("old_mean_mode")
        ratio = smt.rdiv(smt.rpow_int(Nn, D), smt.rpow_int(No, D))
        new0 = smt.rmul(ratio, old0)
        e.prove(f"D={D}: new_hat[0] / N_new^D == old_hat[0] / N_old^D", smt.z(smt.req(smt.rdiv(new0, smt.rpow_int(Nn, D)), smt.rdiv(old0, smt.rpow_int(No, D)))), kind="lemma")
    # the mean mode is always inside the common band and never an oddball mode
    M = z3.Int("M")
    e.prove("the mean mode lies in the common band and is not a Nyquist mode", z3.Implies(M >= 2, z3.And(0 >= -(M / 2), 0 <= (M - 1) / 2, 0 <= M / 2, 2 * 0 != M)), kind="lemma")


# ------------------------------------------------------------------------------------------ C16
@lemma("C16.metric_axioms_and_scaling", {"C16"}, assumes=[A5 + " (Parseval with multiplicity)", "A6: correlation in [-1,1] is Cauchy-Schwarz (assumed)"])
def _c16(e):
    """closed-form consequences of the aggregator post-conditions: L^D scaling, homogeneity, zero for identical inputs,
    and Parseval weights: N^D / reconstruction == Hermitian multiplicity (lemma C04.scaling_and_masks)"""
    L, s, S_, N = R("L"), R("s"), R("S"), z3.Int("N")
    e.assume(z3.And(L > 0, s > 0, S_ >= 0, N >= 1))
    for D in (1, 2, 3):
        def agg(Lx, tot, q):
            sc = smt.rpow_int(smt.rdiv(Lx, N), D)
            v = smt.rmul(sc, tot)
            return v if q == 1 else smt.rsqrt(v)
        e.prove(f"D={D}: MSE-type aggregate scales with L^D", smt.z(smt.req(agg(smt.rmul(s, L), S_, 1), smt.rmul(smt.rpow_int(s, D), agg(L, S_, 1)))), kind="lemma")
        e.prove(f"D={D}: zero total gives zero metric", smt.z(smt.req(agg(L, 0, 1), 0)), kind="lemma")
        lam = R("lam")
        e.prove(f"D={D}: quadratic aggregate is homogeneous of degree 2", smt.z(smt.req(agg(L, smt.rmul(smt.rmul(lam, lam), S_), 1), smt.rmul(smt.rmul(lam, lam), agg(L, S_, 1)))), kind="lemma")
    a, b = R("a"), R("b")
    e.prove("normalized metric is scale free", z3.Implies(z3.And(b != 0, s != 0), (s * a) / (s * b) == a / b), kind="lemma")
    e.prove("symmetric metric is symmetric in (state, reference)", 2 * a / (a + b) == 2 * a / (b + a), kind="lemma")
    lo, hi, k = Iv("lo"), Iv("hi"), Iv("k")
    e.prove("band masks [lo,mid] and [mid+1,hi] partition [lo,hi]",
            z3.And(k >= lo, k <= hi) == z3.Or(z3.And(k >= lo, k <= Iv("mid")), z3.And(k >= Iv("mid") + 1, k <= hi)), kind="lemma",
            extra_hyps=[lo <= Iv("mid") + 1, Iv("mid") <= hi])


# ------------------------------------------------------------------------------------------ C18
@lemma("C18.normalisation_options", {"C18"}, assumes=["A6: MAX(|a|/MAX|a|) = 1, MIN/MAX of an affine image (aggregate facts, assumed)"])
def _c18(e):
    """from normalize_ic's post-condition: after zero_mean the mean is 0 for every field (SUM is linear, SUM(1) = count);
    the clamping map sends min -> lo and max -> hi"""
    Nz = z3.Int("N")
    e.assume(Nz >= 1)
    N = SInt(Nz)
    for D in (1, 2, 3):
        ic = values.fresh_array("ic", (1,) + (N,) * D)
        out = SIC.normalize(ic, True, False, False)
        m = values.reduce_("mean", out, None, False)
        e.prove(f"D={D}: mean(ic - mean(ic)) == 0", smt.z(smt.req(smt.R(m.at_(())), 0)), kind="lemma")
    mn, mx, lo, hi = R("mn"), R("mx"), R("lo"), R("hi")
    e.prove("clamping: min -> lo and max -> hi", z3.Implies(mx != mn, z3.And((mn - mn) / (mx - mn) * (hi - lo) + lo == lo, (mx - mn) / (mx - mn) * (hi - lo) + lo == hi)), kind="lemma")
    off, n = R("off"), z3.Int("n")
    e.prove("mean coefficient offset*N^D corresponds to mean offset", z3.Implies(n >= 1, (off * z3.ToReal(n)) / z3.ToReal(n) == off), kind="lemma")
