"""Level-2 lemmas: from the contracts' post-conditions (spec functions) to the property statements.
Every lemma is discharged by z3 (or the ring normaliser) for all values of its symbols; assumptions are listed."""
from __future__ import annotations

from fractions import Fraction

import z3

from specs import etdrk as SE
from specs import spectral as S
from specs import steppers as SS
from specs.base import T, k_full, k_of, kappa
from symjnp import smt
from symjnp.lemma import canary, lemma
from symjnp.smt import CX, PI

A5 = "A5: DFT facts of jnp.fft.rfftn/irfftn (inversion, single-mode spectrum, shift theorem, Parseval, dealiasing lemma) -- assumed"
A7 = "A7: the M-point contour mean of an entire function equals its value at the centre up to O(r^M/M!) -- assumed exact"


def R(n):
    return z3.Real(n)


def Iv(n):
    return z3.Int(n)


def ceq(a, b):
    return z3.And(smt.z(smt.req(a.re, b.re)), smt.z(smt.req(a.im, b.im)))


def kap_syms(D, tag="k"):
    return [R(f"{tag}{d}") for d in range(D)]


# all linear symbols of the stepper overview as functions of (kappa, parameter symbols)
def linear_symbols(D):
    c = [R(f"c{d}") for d in range(D)]
    A = [[R(f"A{i}_{j}") for j in range(D)] for i in range(D)]
    xi = [R(f"xi{d}") for d in range(D)]
    mu = R("mu")
    a = [R(f"a{j}") for j in range(7)]
    return {
        "Advection": lambda k: SS.sym_advection(k, c),
        "Diffusion": lambda k: SS.sym_diffusion(k, A),
        "AdvectionDiffusion": lambda k: smt.cadd(SS.sym_advection(k, c), SS.sym_diffusion(k, A)),
        "Dispersion": lambda k: SS.sym_dispersion(k, xi, False),
        "Dispersion(mixing)": lambda k: SS.sym_dispersion(k, xi, True),
        "HyperDiffusion": lambda k: SS.sym_hyper_diffusion(k, mu, False),
        "HyperDiffusion(mixing)": lambda k: SS.sym_hyper_diffusion(k, mu, True),
        "GeneralLinear(7 coefficients)": lambda k: SS.sym_generic(k, a),
    }


@lemma("C01.hermitian_symbol", {"C01", "C08"}, assumes=[A5])
def _c01_hermitian(e):
    """sigma_doc(-kappa) = conj sigma_doc(kappa): the propagator maps Hermitian spectra (real fields) to Hermitian spectra"""
    for D in (1, 2, 3):
        k = kap_syms(D)
        for name, f in linear_symbols(D).items():
            s1, s2 = f([-x for x in k]), smt.cconj(f(k))
            e.prove(f"{name} D={D}: sigma(-kappa) == conj sigma(kappa)", ceq(s1, s2), kind="lemma")
    canary(e, "sigma(-kappa) == sigma(kappa) for advection", ceq(linear_symbols(1)["Advection"]([-R("k0")]), linear_symbols(1)["Advection"]([R("k0")])))


@lemma("C01.semigroup_and_reversal", {"C01", "C14"})
def _c01_semigroup(e):
    """exp(dt1 s) exp(dt2 s) = exp((dt1+dt2) s) and exp(dt s) exp(-dt s) = 1 for every complex symbol s:
    n steps of dt equal one step of n*dt (induction on n), and -dt undoes dt"""
    sr, si, d1, d2 = R("sr"), R("si"), R("dt1"), R("dt2")
    s = CX(sr, si)

    def E(dt):
        return smt.cexp(smt.cmul(CX(dt, 0), s))
    lhs = smt.cmul(E(d1), E(d2))
    # the argument of the right-hand side written in the normal form the axiom instances produce
    e.axiom_opts = {"exp_pairs": True, "trig_pairs": True}
    rhs = smt.cexp(CX(z3.simplify(d1 * sr + d2 * sr), z3.simplify(d1 * si + d2 * si)))
    from symjnp import poly
    with poly.trig_expand():  # addition theorems of ER/COS/SIN (A1) as rewrite rules of the normaliser
        e.prove("E(dt1) E(dt2) == E(dt1+dt2)", ceq(lhs, rhs), kind="lemma")
        one = smt.cmul(E(d1), smt.cexp(CX(z3.simplify(-(d1 * sr)), z3.simplify(-(d1 * si)))))
        e.prove("E(dt) E(-dt) == 1", ceq(one, CX(1, 0)), kind="lemma")
    canary(e, "E(dt1) E(dt2) == E(dt1)", ceq(lhs, E(d1)))


@lemma("C11.no_amplification", {"C11"}, assumes=[A5 + " (Parseval; irfftn discards the non-Hermitian part)"])
def _c11(e):
    """Re sigma_doc <= 0 under the documented sign conditions, hence |exp(dt sigma)|^2 = ER(dt Re sigma)^2 <= 1 for dt > 0;
    = 1 for advection / dispersion; < 1 off the mean mode for positive (hyper-)diffusivity"""
    dt = R("dt")
    for D in (1, 2, 3):
        k = kap_syms(D)
        syms = linear_symbols(D)
        A = [[R(f"A{i}_{j}") for j in range(D)] for i in range(D)]
        quad = sum(A[i][j] * k[i] * k[j] for i in range(D) for j in range(D))
        cases = {
            "Advection": [], "Dispersion": [], "Dispersion(mixing)": [],
            "Diffusion": [quad >= 0], "AdvectionDiffusion": [quad >= 0],
            "HyperDiffusion": [R("mu") >= 0], "HyperDiffusion(mixing)": [R("mu") >= 0],
        }
        for name, hyp in cases.items():
            s = syms[name](k)
            Ez = smt.cexp(smt.cmul(CX(dt, 0), s))
            mod2 = smt.cabs2(Ez)
            e.prove(f"{name} D={D}: Re sigma <= 0", smt.z(smt.rle(s.re, 0)), kind="lemma", extra_hyps=hyp)
            e.prove(f"{name} D={D}: |exp(dt sigma)|^2 <= 1 for dt > 0", smt.z(smt.rle(mod2, 1)), kind="lemma", extra_hyps=hyp + [dt > 0])
            if not hyp:
                e.prove(f"{name} D={D}: |exp(dt sigma)|^2 == 1 (norm preserving)", smt.z(smt.req(mod2, 1)), kind="lemma")
        nz = z3.Or(*[x != 0 for x in k])
        sdiag = SS.sym_diffusion(k, [[(R("nu") if i == j else 0) for j in range(D)] for i in range(D)])
        e.prove(f"isotropic Diffusion D={D}: strictly contracting off the mean mode",
                smt.z(smt.rlt(smt.cabs2(smt.cexp(smt.cmul(CX(dt, 0), sdiag))), 1)), kind="lemma", extra_hyps=[R("nu") > 0, dt > 0, nz])
    canary(e, "diffusion with negative diffusivity is non-amplifying",
           smt.z(smt.rle(smt.cabs2(smt.cexp(smt.cmul(CX(dt, 0), SS.sym_diffusion([R("k0")], [[R("nu")]])))), 1)), )


@lemma("C11.wave_energy", {"C11", "C01"})
def _c11_wave(e):
    """the wave propagator is a rotation of the travelling-wave amplitudes: |E pos|^2 + |conj(E) neg|^2 = |pos|^2 + |neg|^2"""
    th = R("theta")
    E = CX(smt.rcos(th), smt.rsin(th))
    p, n = CX(R("pr"), R("pi")), CX(R("nr"), R("ni"))
    lhs = smt.radd(smt.cabs2(smt.cmul(E, p)), smt.cabs2(smt.cmul(smt.cconj(E), n)))
    e.prove("wave energy per mode is conserved", smt.z(smt.req(lhs, smt.radd(smt.cabs2(p), smt.cabs2(n)))), kind="lemma")


# ------------------------------------------------------------------------------------------ C02
@lemma("C02.weights_consistent", {"C02", "C09"}, assumes=[A7])
def _c02_weights(e):
    """order conditions that make the stage formulas meaningful: the final-stage weights sum to phi_1
    (ETDRK4: alpha + 4 beta + gamma = phi1; ETDRK3: alpha + beta4 + gamma = phi1; ETDRK2: weights phi1 - phi2 + phi2),
    for every complex w != 0"""
    w = CX(R("wr"), R("wi"))
    four = CX(4, 0)
    na, nb, ng, n1 = (SE.NUM[k][0](w) for k in ("alpha", "beta", "gamma", "phi1"))
    # all closed forms share the denominator w^3 (phi1 = NUM_phi1 / w): compare the numerators, no division involved
    rhs = smt.cmul(smt.cpow_int(w, 2), n1)
    e.prove("ETDRK4/ETDRK3: NUM_alpha + 4 NUM_beta + NUM_gamma == w^2 NUM_phi1  (i.e. alpha + 4 beta + gamma == phi1 for w != 0)",
            ceq(smt.cadd(smt.cadd(na, smt.cmul(four, nb)), ng), rhs), kind="lemma")
    canary(e, "NUM_alpha + NUM_beta + NUM_gamma == w^2 NUM_phi1", ceq(smt.cadd(smt.cadd(na, nb), ng), rhs), )


@lemma("C02.contour_nodes_conjugate", {"C02"})
def _c02_roots(e):
    """rho_{M-1-j} = conj rho_j  (pairing rule A8: for a real symbol the imaginary parts of the contour samples cancel)"""
    M, j = Iv("M"), Iv("j")
    e.assume(z3.And(M >= 1, j >= 0, j < M))
    e.axiom_opts = {"trig_pairs": True}
    r1 = SE.root(z3.simplify(M - 1 - j), M)
    r2 = smt.cconj(SE.root(j, M))
    # angle(M-1-j) = 2 pi - angle(j): needs the 2 pi periodicity instance
    a1, a2 = r1.re.arg(0), r2.re.arg(0)
    e.assume(z3.And(smt.COS(a1) == smt.COS(z3.simplify(a1 - 2 * PI)), smt.SIN(a1) == smt.SIN(z3.simplify(a1 - 2 * PI))))
    e.assumptions_used.add("A1: COS/SIN are 2*pi periodic (instance)")
    e.prove("rho_{M-1-j} == conj rho_j", ceq(r1, r2), kind="lemma")


# ------------------------------------------------------------------------------------------ C03
@lemma("C03.dealiasing_band", {"C03", "C09"}, assumes=[A5 + " (a product of p band-limited fields aliases nothing onto the band iff (p+1) K < N)"])
def _c03_band(e):
    """with K = the largest integer <= fraction*(N//2) - 1: 3K < N for fraction 2/3 (quadratic terms), 4K < N for
    fraction 1/2 (cubic terms), and K <= N//2 - 1 (the Nyquist mode is never retained)"""
    N, K = Iv("N"), Iv("K")
    e.assume(N >= 1)
    half = N / 2  # integer division
    for frac, p in ((Fraction(2, 3), 3), (Fraction(1, 2), 4)):
        f = z3.RealVal(f"{frac.numerator}/{frac.denominator}")
        cutoff = f * z3.ToReal(half) - 1
        hyp = [z3.ToReal(K) <= cutoff]
        e.prove(f"fraction {frac}: {p} K < N", p * K < N, kind="lemma", extra_hyps=hyp)
        e.prove(f"fraction {frac}: K <= N//2 - 1", K <= half - 1, kind="lemma", extra_hyps=hyp)
    canary(e, "fraction 2/3: 3 (K+1) < N", 3 * (K + 1) < N, )


# ------------------------------------------------------------------------------------------ C04
@lemma("C04.wavenumber_layout", {"C04", "C08"}, assumes=[A5])
def _c04_layout(e):
    """the stored index <-> wavenumber map of a full axis is a bijection onto {-(N//2) .. (N-1)//2} and of the halved
    axis onto {0 .. N//2}; index 0 is the mean mode; the two agree on their common non-negative range"""
    N, i, j = Iv("N"), Iv("i"), Iv("j")
    e.assume(z3.And(N >= 1, i >= 0, i < N, j >= 0, j < N))
    ki, kj = smt.z(k_full(i, N)), smt.z(k_full(j, N))
    e.prove("range: -(N//2) <= k < N - N//2", z3.And(ki >= -(N / 2), 2 * ki < N), kind="lemma")
    e.prove("injective", z3.Implies(ki == kj, i == j), kind="lemma")
    e.prove("mean mode at index 0", (ki == 0) == (i == 0), kind="lemma")
    e.prove("aliasing class: k == i (mod N)", (ki - i) % N == 0, kind="lemma")
    e.prove("full and halved axis agree below Nyquist", z3.Implies(2 * i < N, ki == i), kind="lemma")
    canary(e, "k == i everywhere", ki == i)


@lemma("C04.scaling_and_masks", {"C04", "C16", "C17"}, assumes=[A5])
def _c04_scaling(e):
    """coef_extraction scaling = N^D / 2^(number of components that are neither 0 nor Nyquist) (amplitude read-off of
    a*cos(k.x+phi)); reconstruction counts only the halved axis (Hermitian multiplicity): N^D / recon = m with m = 2
    iff 0 < k_last < N/2; the oddball mask is false exactly at |k_d| = N/2"""
    from symjnp.values import SInt
    Nz = Iv("N")
    N = SInt(Nz)
    e.assume(Nz >= 1)
    for D in (1, 2, 3):
        idx = [Iv(f"s{d}") for d in range(D)]
        for d in range(D):
            e.assume(z3.And(idx[d] >= 0, idx[d] < (Nz if d < D - 1 else Nz / 2 + 1)))
        ks = [smt.z(k_of(d, idx, D, N)) for d in range(D)]
        ND = z3.ToReal(Nz) * z3.ToReal(Nz) * z3.ToReal(Nz) if D == 3 else (z3.ToReal(Nz) * z3.ToReal(Nz) if D == 2 else z3.ToReal(Nz))
        rec = smt.z(S.scaling_array(D, N, 2, 1).at_((0,) + tuple(idx)))
        kl = ks[-1]
        m = z3.If(z3.And(kl > 0, 2 * kl < Nz), z3.RealVal(2), z3.RealVal(1))
        e.prove(f"D={D}: N^D / reconstruction == Hermitian multiplicity", smt.zr(rec) * m == ND, kind="lemma")
        nc = smt.z(S.scaling_array(D, N, 1, 1).at_((0,) + tuple(idx)))
        e.prove(f"D={D}: norm_compensation == N^D", smt.zr(nc) == ND, kind="lemma")
        ce = smt.z(S.scaling_array(D, N, 2, 2).at_((0,) + tuple(idx)))
        cnt = sum(z3.If(z3.And(k != 0, 2 * z3.If(k >= 0, k, -k) != Nz), 1, 0) for k in ks)
        pw = z3.If(cnt == 0, z3.RealVal(1), z3.If(cnt == 1, z3.RealVal(2), z3.If(cnt == 2, z3.RealVal(4), z3.RealVal(8))))
        e.prove(f"D={D}: coef_extraction * 2^(#regular components) == N^D", smt.zr(ce) * pw == ND, kind="lemma")
        odd = S.oddball_mask(D, N).at_((0,) + tuple(idx))
        nyq = z3.Or(*[2 * z3.If(k >= 0, k, -k) == Nz for k in ks])
        e.prove(f"D={D}: oddball mask false exactly on Nyquist components", smt.z(odd) == z3.Not(nyq), kind="lemma")


# ------------------------------------------------------------------------------------------ C05
@lemma("C05.poisson_and_symbols", {"C05"}, assumes=[A5])
def _c05(e):
    """Laplace symbol vanishes exactly at the mean mode; the Poisson solve satisfies Lap_hat u_hat = -f_hat off the mean
    mode and u_hat = 0 there (zero-mean solution of -Lap u = f - mean f); (i kappa)^n is the analytic symbol of d^n"""
    L = R("L")
    e.assume(L > 0)
    for D in (1, 2, 3):
        k = [Iv(f"k{d}") for d in range(D)]
        kap = [2 * PI / L * z3.ToReal(x) for x in k]
        for order in (2, 4):
            lap = SS.sym_laplace(kap, order)
            allz = z3.And(*[x == 0 for x in k])
            e.prove(f"D={D}, order {order}: symbol is real", smt.z(smt.req(lap.im, 0)), kind="lemma")
            e.prove(f"D={D}, order {order}: symbol == 0 <=> mean mode", (smt.zr(lap.re) == 0) == allz, kind="lemma")
            f = CX(R("fr"), R("fi"))
            inv = z3.If(smt.zr(lap.re) == 0, z3.RealVal(0), 1 / smt.zr(lap.re))
            u = smt.cneg(smt.cmul(CX(inv, 0), f))
            e.prove(f"D={D}, order {order}: Lap_hat * u_hat == -f_hat off the mean mode",
                    ceq(smt.cmul(CX(lap.re, 0), u), smt.cneg(f)), kind="lemma", extra_hyps=[z3.Not(allz)])
            e.prove(f"D={D}, order {order}: u_hat == 0 at the mean mode", ceq(u, CX(0, 0)), kind="lemma", extra_hyps=[allz])
    kr = R("kap")
    for n in range(1, 7):
        z = smt.cpow_int(CX(0, kr), n)
        expect = [CX(0, kr), CX(-kr * kr, 0), CX(0, -kr ** 3), CX(kr ** 4, 0), CX(0, kr ** 5), CX(-kr ** 6, 0)][n - 1]
        e.prove(f"(i kappa)^{n} is the symbol of the {n}-th derivative of exp(i kappa x)", ceq(z, expect), kind="lemma")
    canary(e, "Laplace symbol is positive", smt.zr(SS.sym_laplace([R("kap")], 2).re) > 0)


# ------------------------------------------------------------------------------------------ C10
@lemma("C10.projection_algebra", {"C10"}, assumes=[A5 + " (physical-space statements need Nyquist-free fields)"])
def _c10(e):
    """per mode, with d = i kappa (any L > 0): d . P(u) = 0; P(P u) = P u; d . u = 0 => P u = u; the projection does not
    depend on L (Leray with domain_extent L == make_incompressible with unit extent); and a stage update with
    channel-independent coefficients keeps d . u = 0"""
    for D in (2, 3):
        kap = kap_syms(D, "q")
        d = [CX(0, x) for x in kap]
        u = [CX(R(f"ur{c}"), R(f"ui{c}")) for c in range(D)]

        def proj(dd, uu):
            lap = CX(0, 0)
            for x in dd:
                lap = smt.cadd(lap, smt.cmul(x, x))
            is0 = smt.zr(lap.re) == 0
            inv = z3.If(is0, z3.RealVal(0), 1 / smt.zr(lap.re))
            div = CX(0, 0)
            for x, y in zip(dd, uu):
                div = smt.cadd(div, smt.cmul(x, y))
            p = smt.cmul(CX(-inv, 0), div)
            return [smt.cadd(y, smt.cmul(x, p)) for x, y in zip(dd, uu)]

        def dot(dd, uu):
            s = CX(0, 0)
            for x, y in zip(dd, uu):
                s = smt.cadd(s, smt.cmul(x, y))
            return s
        Pu = proj(d, u)
        zero = CX(0, 0)
        e.prove(f"D={D}: d . P(u) == 0", ceq(dot(d, Pu), zero), kind="lemma")
        PPu = proj(d, Pu)
        e.prove(f"D={D}: P(P u) == P u", z3.And(*[ceq(a, b) for a, b in zip(PPu, Pu)]), kind="lemma")
        e.prove(f"D={D}: d . u == 0 => P u == u", z3.And(*[ceq(a, b) for a, b in zip(Pu, u)]), kind="lemma", extra_hyps=[ceq(dot(d, u), zero)])
        s = R("s")
        d2 = [CX(0, s * x) for x in kap]
        P2 = proj(d2, u)
        e.prove(f"D={D}: projection independent of the domain extent", z3.And(*[ceq(a, b) for a, b in zip(P2, Pu)]), kind="lemma", extra_hyps=[s > 0])
        v = [CX(R(f"vr{c}"), R(f"vi{c}")) for c in range(D)]
        a, b = CX(R("ar"), R("ai")), CX(R("br"), R("bi"))
        comb = [smt.cadd(smt.cmul(a, x), smt.cmul(b, y)) for x, y in zip(u, v)]
        e.prove(f"D={D}: a u + b v stays solenoidal for channel-independent per-mode coefficients a, b",
                ceq(dot(d, comb), zero), kind="lemma", extra_hyps=[ceq(dot(d, u), zero), ceq(dot(d, v), zero)])
        canary(e, f"D={D}: P u == u for every u", z3.And(*[ceq(x, y) for x, y in zip(Pu, u)]))


# ------------------------------------------------------------------------------------------ C13
@lemma("C13.conversions", {"C13"})
def _c13_conv(e):
    """normalize/denormalize and reduce/extract are mutual inverses (both orders) and the generic symbol depends on
    (L, dt, a) only through alpha_j = a_j dt / L^j:  dt * sigma_generic(L; a)(k) == sigma_generic(1; alpha)(k)"""
    L, dt, M = R("L"), R("dt"), R("Mabs")
    N = Iv("N")
    e.assume(z3.And(L > 0, dt != 0, N >= 1, M > 0))
    a = [R(f"a{j}") for j in range(6)]
    al = SS.normalize_coefficients(a, L, dt)
    back = SS.denormalize_coefficients(al, L, dt)
    for j in range(6):
        e.prove(f"denormalize(normalize(a))[{j}] == a[{j}]", smt.z(smt.req(back[j], a[j])), kind="lemma")
    fw = SS.normalize_coefficients(SS.denormalize_coefficients(a, L, dt), L, dt)
    for j in range(6):
        e.prove(f"normalize(denormalize(alpha))[{j}] == alpha[{j}]", smt.z(smt.req(fw[j], a[j])), kind="lemma")
    for D in (1, 2, 3):
        g = SS.reduce_coefficients(a, D, N)
        bk = SS.extract_coefficients(g, D, N)
        for j in range(6):
            e.prove(f"D={D}: extract(reduce(alpha))[{j}] == alpha[{j}]", smt.z(smt.req(bk[j], a[j])), kind="lemma")
        b = R("beta")
        e.prove(f"D={D}: extract_convection(reduce_convection(beta))", smt.z(smt.req(SS.extract_convection(SS.reduce_convection(b, D, N, M), D, N, M), b)), kind="lemma")
        e.prove(f"D={D}: extract_gradient_norm(reduce_gradient_norm(beta))", smt.z(smt.req(SS.extract_gradient_norm(SS.reduce_gradient_norm(b, D, N, M), D, N, M), b)), kind="lemma")
        k = [Iv(f"k{d}") for d in range(D)]
        kapL = [2 * PI / L * z3.ToReal(x) for x in k]
        kap1 = [2 * PI * z3.ToReal(x) for x in k]
        lhs = smt.cmul(CX(dt, 0), SS.sym_generic(kapL, a))
        rhs = SS.sym_generic(kap1, al)
        e.prove(f"D={D}: dt * sigma_generic(L; a) == sigma_generic(1; alpha)", ceq(lhs, rhs), kind="lemma")
    canary(e, "alpha_1 == a_1", smt.z(smt.req(al[1], a[1])))


@lemma("C13.specific_equals_generic_symbol", {"C13"})
def _c13_pairs(e):
    """each concrete stepper's documented symbol equals the generic symbol with the coefficient list of the stepper overview"""
    for D in (1, 2, 3):
        k = kap_syms(D)
        c, nu, xi, mu, p1, p2, r, lam = (R(x) for x in ("c", "nu", "xi", "mu", "p1", "p2", "r", "lam"))
        iso = lambda v: [[(v if i == j else 0) for j in range(D)] for i in range(D)]  # noqa: E731
        pairs = {
            "Advection(c) ~ (0,-c)": (SS.sym_advection(k, [c] * D), [0, -c]),
            "Diffusion(nu) ~ (0,0,nu)": (SS.sym_diffusion(k, iso(nu)), [0, 0, nu]),
            "AdvectionDiffusion ~ (0,-c,nu)": (smt.cadd(SS.sym_advection(k, [c] * D), SS.sym_diffusion(k, iso(nu))), [0, -c, nu]),
            "Dispersion(xi) ~ (0,0,0,xi)": (SS.sym_dispersion(k, [xi] * D, False), [0, 0, 0, xi]),
            "HyperDiffusion(mu) ~ (0,0,0,0,-mu)": (SS.sym_hyper_diffusion(k, mu, False), [0, 0, 0, 0, -mu]),
            "Burgers(nu) ~ (0,0,nu)": (SS.cscale(nu, SS.sym_laplace(k)), [0, 0, nu]),
            "KdV ~ (0,0,nu,-xi,-mu)": (smt.cadd(smt.cadd(SS.cscale(nu, SS.sym_laplace(k)), smt.cneg(SS.sym_dispersion(k, [xi] * D, False))), SS.sym_hyper_diffusion(k, mu, False)), [0, 0, nu, -xi, -mu]),
            "KS ~ (0,0,-p1,0,-p2)": (smt.cadd(SS.cscale(-p1, SS.sym_laplace(k, 2)), SS.cscale(-p2, SS.sym_laplace(k, 4))), [0, 0, -p1, 0, -p2]),
            "NavierStokes(nu, drag) ~ (drag/D,0,nu)": (smt.cadd(SS.cscale(nu, SS.sym_laplace(k)), CX(lam, 0)), [lam / D, 0, nu]),
            "FisherKPP(nu, r) ~ (r/D,0,nu)": (smt.cadd(SS.cscale(nu, SS.sym_laplace(k)), CX(r, 0)), [r / D, 0, nu]),
        }
        for name, (spec, coeffs) in pairs.items():
            e.prove(f"D={D}: {name}", ceq(spec, SS.sym_generic(k, coeffs)), kind="lemma")
    e.assumptions_used.add("documented convention: the j=0 term of the generic symbol is D*a_0 (sum over dimensions of (i kappa_d)^0)")


# ------------------------------------------------------------------------------------------ C17
@lemma("C17.bins_partition", {"C17"}, assumes=[A5 + " (Parseval)"])
def _c17(e):
    """every radius r in [0, nb - 1/2) lies in exactly one half-open bin [b-1/2, b+1/2), b = round-half-up(r) in 0..nb-1,
    and radii >= nb - 1/2 lie in none"""
    r = R("r")
    b, b2, nb = Iv("b"), Iv("b2"), Iv("nb")
    e.assume(z3.And(r >= 0, nb >= 1))

    def inb(x):
        return z3.And(r >= z3.ToReal(x) - 0.5, r < z3.ToReal(x) + 0.5)
    e.prove("uniqueness", z3.Implies(z3.And(inb(b), inb(b2)), b == b2), kind="lemma")
    w = z3.ToInt(r + 0.5)
    e.prove("existence (witness floor(r + 1/2))", z3.Implies(r < z3.ToReal(nb) - 0.5, z3.And(inb(w), w >= 0, w < nb)), kind="lemma")
    e.prove("dropped outside the Nyquist sphere", z3.Implies(z3.And(r >= z3.ToReal(nb) - 0.5, b >= 0, b < nb), z3.Not(inb(b))), kind="lemma")
    canary(e, "closed upper edge would still be unique", z3.Implies(z3.And(r >= z3.ToReal(b) - 0.5, r <= z3.ToReal(b) + 0.5, r >= z3.ToReal(b2) - 0.5, r <= z3.ToReal(b2) + 0.5), b == b2))
