"""Specs for exponax._interpolation (C15)."""
from __future__ import annotations

import z3

from symjnp import ops, smt, values
from symjnp.smt import CX

from . import spectral as S
from .base import T, arr, k_full, k_last, kappa, rsum, wshape


def interpolator_fields(state, domain_extent=1.0, indexing="ij"):
    """docstring: coefficients = fft(state) / reconstruction scaling; wavenumbers = 2 pi k / L"""
    D, N = state.ndim - 1, state.shape[-1]
    fh = S.fft(state, D)
    rec = S.scaling_array(D, N, *S.SCALING_DENOMS["reconstruction"], indexing)
    return {"num_spatial_dims": D, "domain_extent": domain_extent, "num_points": N,
            "state_hat_scaled": arr(fh.shape, lambda idx: smt.cdiv(fh.at_(idx), CX(rec.at_((0,) + idx[1:]), 0)), "complex"),
            "wavenumbers": S.scaled_wavenumbers(D, domain_extent, N, indexing)}


def interpolate(obj, x):
    """C15 mechanism: value(x)[c] = Re sum over stored modes of coef[c, idx] * exp(i kappa(idx) . x)"""
    D = obj.num_spatial_dims
    sh, wn = obj.state_hat_scaled, obj.wavenumbers
    C = sh.shape[0]

    def term(idx):
        s = idx[1:]
        ph = rsum([smt.rmul(wn.at_((d,) + s), smt.R(x.at_((d,)))) for d in range(D)])
        return smt.cmul(sh.at_(idx), smt.cexp(CX(0, ph)))
    full = arr(sh.shape, term, "complex")
    tot = values.reduce_("sum", full, tuple(range(1, 1 + D)), False)
    return tot.real


def resample(state, new_num_points, oddball_zero=True):
    """C15: every stored mode of the new grid whose wavenumber lies in the band resolved by BOTH grids receives the old
    coefficient of the same wavenumber times (N_new/N_old)^D; all other modes are zero; Nyquist (oddball) modes of the
    coarser grid are removed when that grid is even (oddball_zero)"""
    D = state.ndim - 1
    No, Nn = state.shape[-1], new_num_points
    C = state.shape[0]
    if values.dims_equal(No, Nn):
        return state
    Not, Nnt = T(No), T(Nn)
    up = bool(values.mk_bool(smt.rgt(Nnt, Not)))
    M = No if up else Nn          # the coarser grid
    Mt = T(M)
    Meven = oddball_zero and bool(values.mk_bool(smt.req(smt.rmod(Mt, 2), 0)))
    fh = S.fft(state, D)
    lo = smt.rneg(T(M // 2))
    hi_full = T((M - 1) // 2)
    hi_last = T(M // 2)

    def fn(idx):
        c, s = idx[0], idx[1:]
        inband, src, nyq = True, [], False
        for ax in range(D):
            if ax == D - 1:
                k = k_last(s[ax])
                inband = smt.band(inband, smt.rle(k, hi_last))
                src.append(k)
            else:
                k = k_full(s[ax], Nn)
                inband = smt.band(inband, smt.band(smt.rge(k, lo), smt.rle(k, hi_full)))
                j = smt.rite(smt.rge(k, 0), k, smt.radd(Not, k))
                src.append(j)
            nyq = smt.bor(nyq, smt.req(smt.rmul(2, smt.rabs(k)), Mt))
        src = [v if isinstance(v, int) else smt.norm(z3.simplify(smt.z(v))) for v in src]
        with values.guard(inband):
            val = fh.at_((c,) + tuple(src))
        ratio = smt.rdiv(smt.rpow_int(Nnt, D), smt.rpow_int(Not, D))
        keep = inband
        if Meven and oddball_zero:
            keep = smt.band(keep, smt.bnot(nyq))
        return smt.cite(keep, smt.cmul(CX(ratio, 0), val), CX(0, 0))
    new_hat = arr((C,) + wshape(D, Nn), fn, "complex")
    return S.ifft(new_hat, D, Nn)
