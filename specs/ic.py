"""Specs for exponax.ic (C18): every generator realises its documented construction."""
from __future__ import annotations

from fractions import Fraction

import z3

from symjnp import ops, smt, values
from symjnp.smt import CX
from symjnp.values import SArr

from . import spectral as S
from .base import T, arr, kappa, rsum, wshape


def sqrt_arr(a):
    return arr(a.shape, lambda i: smt.rsqrt(smt.R(a.at_(i))))


def std_all(ic):
    """population standard deviation over all entries"""
    m = values.reduce_("mean", ic, None, True)
    d = ic - m
    return sqrt_arr(values.reduce_("mean", d * d, None, False))


def normalize(ic, zero_mean=True, std_one=False, max_one=False):
    """docstring of normalize_ic: subtract the mean, then divide by the standard deviation, then by max |.| (in this order)"""
    if zero_mean:
        ic = ic - values.reduce_("mean", ic, None, False)
    if std_one:
        ic = ic / std_all(ic)
    if max_one:
        ic = ic / values.reduce_("max", values.unop("abs", ic), None, False)
    return ic


def white_noise(D, N, key, std=1.0):
    """std * standard normal draws of shape (1, N, ..., N) from `key`"""
    g = ops.rnd_normal(key, (1,) + (N,) * D)
    return arr(g.shape, lambda i: smt.rmul(T(std), g.at_(i)))


def truncated_fourier_series(obj, N, key):
    """docstring of RandomTruncatedFourierSeries: white noise, low-pass filtered at `cutoff` (per axis), with the mean
    set to an offset drawn uniformly from offset_range (mean = offset <=> mean coefficient = offset * N^D), then
    normalised (zero_mean only when no offset is requested)"""
    D = obj.num_spatial_dims
    ks = ops.key_split(key, 2)
    noise = white_noise(D, N, ks[0])
    fh = S.fft(noise, D)
    mask = S.low_pass_mask(D, N, obj.cutoff, True)
    off = ops.rnd_uniform(ks[1], (1,), obj.offset_range[0], obj.offset_range[1]).at_((0,))
    dc = smt.rmul(off, smt.rpow_int(T(N), D))

    def fn(idx):
        s = idx[1:]
        atdc = True
        for j in s:
            atdc = smt.band(atdc, smt.req(j, 0))
        base = smt.cite(mask.at_((0,) + s), fh.at_(idx), CX(0, 0))
        return smt.cite(atdc, CX(dc, 0), base)
    ic = S.ifft(arr(fh.shape, fn, "complex"), D, N)
    zero_mean = tuple(obj.offset_range) == (0.0, 0.0)
    return normalize(ic, zero_mean, obj.std_one, obj.max_one)


def gaussian_random_field(obj, N, key):
    """docstring: white noise whose spectrum is shaped by |kappa|^(-exponent/2) (mean coefficient left untouched: factor 1)"""
    D, L = obj.num_spatial_dims, obj.domain_extent
    fh = S.fft(white_noise(D, N, key), D)
    p = smt.rdiv(smt.rneg(T(obj.powerlaw_exponent)), 2)

    def fn(idx):
        s = idx[1:]
        atdc = True
        for j in s:
            atdc = smt.band(atdc, smt.req(j, 0))
        nrm = smt.rsqrt(rsum([smt.rmul(kappa(d, s, D, N, L), kappa(d, s, D, N, L)) for d in range(D)]))
        amp = smt.rite(atdc, 1, smt.rpow_real(nrm, p))
        return smt.cmul(fh.at_(idx), CX(amp, 0))
    ic = S.ifft(arr(fh.shape, fn, "complex"), D, N)
    return normalize(ic, obj.zero_mean, obj.std_one, obj.max_one)


def diffused_noise(obj, N, key):
    """docstring: white noise advanced by one step (dt = 1) of the diffusion equation with diffusivity `intensity`"""
    D, L = obj.num_spatial_dims, obj.domain_extent
    fh = S.fft(white_noise(D, N, key), D)
    nu = T(obj.intensity)

    def fn(idx):
        s = idx[1:]
        k2 = rsum([smt.rmul(kappa(d, s, D, N, L), kappa(d, s, D, N, L)) for d in range(D)])
        return smt.cmul(CX(smt.rexp(smt.rneg(smt.rmul(nu, k2))), 0), fh.at_(idx))
    ic = S.ifft(arr(fh.shape, fn, "complex"), D, N)
    return normalize(ic, obj.zero_mean, obj.std_one, obj.max_one)


def clamp(ic, limits):
    """docstring: affine map sending min -> limits[0] and max -> limits[1]"""
    lo, hi = T(limits[0]), T(limits[1])
    above = ic - values.reduce_("min", ic, None, False)
    unit = above / values.reduce_("max", above, None, False)
    rng, low = arr((), lambda i: smt.rsub(hi, lo)), arr((), lambda i: lo)
    return unit * rng + low


def discontinuity(obj, x):
    """docstring: `value` inside the open box prod_i (lower_i, upper_i), 0 outside; ONE channel (C18)"""
    D = x.shape[0]
    v = T(obj.value) if not isinstance(obj.value, SArr) else smt.R(obj.value.at_(()))

    def fn(idx):
        inside = True
        for i, (lb, ub) in enumerate(zip(obj.lower_limits, obj.upper_limits)):
            xi = smt.R(x.at_((i,) + idx[1:]))
            lbt = smt.R(lb.at_(())) if isinstance(lb, SArr) else T(lb)
            ubt = smt.R(ub.at_(())) if isinstance(ub, SArr) else T(ub)
            inside = smt.band(inside, smt.band(smt.rgt(xi, lbt), smt.rlt(xi, ubt)))
        return smt.rite(inside, v, 0)
    return arr((1,) + tuple(x.shape[1:]), fn)


def scalar(v):
    """R-value of a python number / symbolic float / 0-d array"""
    return smt.R(v.at_(())) if isinstance(v, SArr) else T(v)


def discontinuities(obj, x):
    """docstring of Discontinuities: the sum of its discontinuities, then the shared normalisation"""
    parts = [discontinuity(d, x) for d in obj.discontinuity_list]
    tot = arr((1,) + tuple(x.shape[1:]), lambda i: rsum([smt.R(p.at_(i)) for p in parts]))
    return normalize(tot, obj.zero_mean, obj.std_one, obj.max_one)


def random_discontinuity_fields(obj, key):
    """docstring of RandomDiscontinuities.gen_one_ic_fn: per axis two uniform draws on [0, L) give the box limits (the
    smaller is the lower one), the value is uniform on value_range; the key is split 3-ways per axis, the third child
    is carried on and finally draws the value"""
    L = obj.domain_extent
    lows, ups, k = [], [], key
    for _ in range(obj.num_spatial_dims):
        ks = ops.key_split(k, 3)
        l1, l2 = ops.rnd_uniform(ks[0], (), 0.0, L), ops.rnd_uniform(ks[1], (), 0.0, L)
        lows.append(values.binop("min", l1, l2))
        ups.append(values.binop("max", l1, l2))
        k = ks[2]
    return tuple(lows), tuple(ups), ops.rnd_uniform(k, (), obj.value_range[0], obj.value_range[1])


def matrix_inverse(m):
    """the inverse of a 1x1 / 2x2 / 3x3 matrix: adjugate / determinant"""
    M = values.const_arr(m)
    n = M.shape[0]
    adj, det = ops.adjugate_det([[smt.R(M.at_((i, j))) for j in range(n)] for i in range(n)])
    rows = [[smt.rdiv(adj[i][j], det) for j in range(n)] for i in range(n)]
    return arr((n, n), lambda idx: rows[idx[0]][idx[1]])


def gaussian_blob(obj, x):
    """docstring of GaussianBlob: exp(-1/2 (x - p)^T W (x - p)) with W the stored inverse covariance, one channel;
    1 - that with one_complement"""
    D = x.shape[0]
    p, W = values.const_arr(obj.position), values.const_arr(obj._inv_covariance)

    def fn(idx):
        d = [smt.rsub(smt.R(x.at_((i,) + idx[1:])), smt.R(p.at_((i,)))) for i in range(D)]
        q = rsum([smt.rmul(smt.rmul(d[i], smt.R(W.at_((i, j)))), d[j]) for i in range(D) for j in range(D)])
        b = smt.rexp(smt.rmul(Fraction(-1, 2), q))
        return smt.rsub(1, b) if obj.one_complement else b
    return arr((1,) + tuple(x.shape[1:]), fn)


def gaussian_blobs(obj, x):
    """docstring of GaussianBlobs: the arithmetic mean of the blobs"""
    parts = [gaussian_blob(b, x) for b in obj.blob_list]
    n = len(parts)
    return arr((1,) + tuple(x.shape[1:]), lambda i: smt.rdiv(rsum([smt.R(p.at_(i)) for p in parts]), n))


def random_blob_fields(obj, key):
    """docstring of RandomGaussianBlobs.gen_blob: position uniform on position_range * L, variances uniform on
    variance_range * L (per axis), covariance = diag(variances); the key is split in two (position, variance)"""
    D, L = obj.num_spatial_dims, T(obj.domain_extent)
    ks = ops.key_split(key, 2)
    pos = ops.rnd_uniform(ks[0], (D,), smt.rmul(T(obj.position_range[0]), L), smt.rmul(T(obj.position_range[1]), L))
    var = ops.rnd_uniform(ks[1], (D,), smt.rmul(T(obj.variance_range[0]), L), smt.rmul(T(obj.variance_range[1]), L))
    cov = arr((D, D), lambda idx: smt.rite(smt.req(idx[0], idx[1]), var.at_((idx[0],)), 0))
    return pos, cov


def sine_waves(obj, x):
    """docstring: sum_j a_j sin(k_j 2 pi x / L + p_j) + offset, then std / max normalisation"""
    L = T(obj.domain_extent)
    n = len(obj.amplitudes) if not isinstance(obj.amplitudes, SArr) else obj.amplitudes.shape[0]

    def comp(seq, j):
        return smt.R(seq.at_((j,))) if isinstance(seq, SArr) else T(seq[j])

    def fn(idx):
        xv = smt.R(x.at_(idx))
        tot = 0
        for j in range(n):
            ph = smt.radd(smt.rmul(smt.rmul(comp(obj.wavenumbers, j), smt.rdiv(smt.rmul(2, smt.PI), L)), xv), comp(obj.phases, j))
            tot = smt.radd(tot, smt.rmul(comp(obj.amplitudes, j), smt.rsin(ph)))
        off = obj.offset
        return smt.radd(tot, smt.R(off.at_(())) if isinstance(off, SArr) else T(off))
    res = arr(x.shape, fn)
    return normalize(res, False, obj.std_one, obj.max_one)
