"""Specs for exponax.etdrk: Cox & Matthews (2002) ETDRK schemes, coefficients as Kassam-Trefethen contour means.

z = dt * L[idx] (complex), r = circle radius, M = number of contour points,
rho_j(M) = exp(2 pi i (j + 1/2) / M)  (C02 mechanism 'contour points'),
CM_g(z, r, M) = (1/M) sum_{j<M} g(z + r rho_j)   -- the COMPLEX mean (the property quantifies over complex symbols).
"""
from __future__ import annotations

from fractions import Fraction

import z3

from symjnp import engine, numeval, ops, smt, values
from symjnp.smt import CX, PI

from .base import T, arr


# ------------------------------------------------------------ closed forms (class docstrings / CM eqs. 20-29)
def _e(w):
    return smt.cexp(w)


ONE = CX(1, 0)


def _c(x):
    return CX(x, 0)


def g_phi1_half(w):      # (e^{w/2} - 1)/w
    return smt.cdiv(smt.csub(_e(smt.cmul(_c(Fraction(1, 2)), w)), ONE), w)


def g_phi1(w):           # (e^w - 1)/w
    return smt.cdiv(smt.csub(_e(w), ONE), w)


def g_phi2(w):           # (e^w - 1 - w)/w^2
    return smt.cdiv(smt.csub(smt.csub(_e(w), ONE), w), smt.cpow_int(w, 2))


def g_alpha(w):          # (-4 - w + e^w (4 - 3w + w^2))/w^3
    p = smt.cadd(smt.csub(_c(4), smt.cmul(_c(3), w)), smt.cpow_int(w, 2))
    return smt.cdiv(smt.cadd(smt.csub(_c(-4), w), smt.cmul(_e(w), p)), smt.cpow_int(w, 3))


def g_beta(w):           # (2 + w + e^w (-2 + w))/w^3
    return smt.cdiv(smt.cadd(smt.cadd(_c(2), w), smt.cmul(_e(w), smt.cadd(_c(-2), w))), smt.cpow_int(w, 3))


def g_beta4(w):          # 4 (2 + w + e^w (-2 + w))/w^3   (ETDRK3 folds the factor 4 into the coefficient)
    return smt.cmul(_c(4), g_beta(w))


def g_gamma(w):          # (-4 - 3w - w^2 + e^w (4 - w))/w^3
    q = smt.csub(smt.csub(_c(-4), smt.cmul(_c(3), w)), smt.cpow_int(w, 2))
    return smt.cdiv(smt.cadd(q, smt.cmul(_e(w), smt.csub(_c(4), w))), smt.cpow_int(w, 3))


def num_phi1(w):
    return smt.csub(_e(w), ONE)


def num_alpha(w):
    p = smt.cadd(smt.csub(_c(4), smt.cmul(_c(3), w)), smt.cpow_int(w, 2))
    return smt.cadd(smt.csub(_c(-4), w), smt.cmul(_e(w), p))


def num_beta(w):
    return smt.cadd(smt.cadd(_c(2), w), smt.cmul(_e(w), smt.cadd(_c(-2), w)))


def num_gamma(w):
    q = smt.csub(smt.csub(_c(-4), smt.cmul(_c(3), w)), smt.cpow_int(w, 2))
    return smt.cadd(q, smt.cmul(_e(w), smt.csub(_c(4), w)))


# numerator and power of w in the denominator of each closed form  g = NUM / w^p
NUM = {"phi1": (num_phi1, 1), "alpha": (num_alpha, 3), "beta": (num_beta, 3), "gamma": (num_gamma, 3)}

G = {"phi1_half": g_phi1_half, "phi1": g_phi1, "phi2": g_phi2, "alpha": g_alpha, "beta": g_beta,
     "beta4": g_beta4, "gamma": g_gamma}

# which closed form each stored coefficient must be (times dt), per order
COEFS = {
    1: {"_coef_1": "phi1"},
    2: {"_coef_1": "phi1", "_coef_2": "phi2"},
    3: {"_coef_1": "phi1_half", "_coef_2": "phi1", "_coef_3": "alpha", "_coef_4": "beta4", "_coef_5": "gamma"},
    4: {"_coef_1": "phi1_half", "_coef_2": "phi1_half", "_coef_3": "phi1_half", "_coef_4": "alpha", "_coef_5": "beta", "_coef_6": "gamma"},
}
# order in which the scan body accumulates them (the invariant is a tuple in this order)
SCAN_ORDER = {1: ["phi1"], 2: ["phi1", "phi2"], 3: ["phi1_half", "phi1", "alpha", "beta4", "gamma"],
              4: ["phi1_half", "alpha", "beta", "gamma"]}

_S = {}


def S(gname, part):
    """partial contour sums  S_g(z, r, M, j) = sum_{l<j} g(z + r rho_l(M)),  defined by
       S(.., 0) = 0,  S(.., j+1) = S(.., j) + g(z + r rho_j)   (the recursion is unfolded in the invariant)"""
    key = (gname, part)
    if key not in _S:
        _S[key] = z3.Function(f"CSUM_{gname}_{part}", z3.RealSort(), z3.RealSort(), z3.RealSort(), z3.IntSort(), z3.IntSort(), z3.RealSort())
        # its meaning for the numeric evaluator of native replays: the finite sum itself, in complex floating point
        numeval.NUMERIC_UF[f"CSUM_{gname}_{part}"] = (lambda zr, zi, r, M, j, g=gname, p=part: _num_partial(g, p, zr, zi, r, M, j))
    return _S[key]


def _num_g(gname, w):
    import cmath
    e = cmath.exp
    return {"phi1_half": lambda: (e(w / 2) - 1) / w, "phi1": lambda: (e(w) - 1) / w, "phi2": lambda: (e(w) - 1 - w) / w ** 2,
            "alpha": lambda: (-4 - w + e(w) * (4 - 3 * w + w ** 2)) / w ** 3, "beta": lambda: (2 + w + e(w) * (-2 + w)) / w ** 3,
            "beta4": lambda: 4 * (2 + w + e(w) * (-2 + w)) / w ** 3, "gamma": lambda: (-4 - 3 * w - w ** 2 + e(w) * (4 - w)) / w ** 3}[gname]()


def _num_partial(gname, part, zr, zi, r, M, j):
    import cmath
    import math
    s = 0j
    for l in range(int(j)):
        s += _num_g(gname, complex(zr, zi) + r * cmath.exp(2j * math.pi * (l + 0.5) / M))
    return s.real if part == "re" else s.imag


def root(j, M):
    """rho_j(M) = exp(2 pi i (j + 1/2)/M), j = 0..M-1"""
    th = smt.rdiv(smt.rmul(smt.rmul(2, PI), smt.radd(j, Fraction(1, 2))), T(M))
    return CX(smt.rcos(th), smt.rsin(th))


def roots_of_unity(M):
    return arr((M,), lambda i: root(i[0], M), "complex")


def partial_sum(gname, z, r, M, j, unfold=False):
    """CX value of S_g(z,r,M,j); unfold=True writes S(j) as S(j-1) + g(z + r rho_{j-1}) (definition of the recursion)"""
    zr, zi, rr = smt.zr(z.re), smt.zr(z.im), smt.zr(T(r))
    Mz = smt.z(T(M))
    if isinstance(j, int) and j == 0:
        return CX(0, 0)
    if unfold:
        jm = smt.rsub(j, 1)
        jm = jm if isinstance(jm, int) else z3.simplify(jm)
        prev = partial_sum(gname, z, r, M, jm)
        w = smt.cadd(z, smt.cmul(_c(T(r)), root(jm, M)))
        return smt.cadd(prev, G[gname](w))
    jz = smt.z(j)
    return CX(S(gname, "re")(zr, zi, rr, Mz, jz), S(gname, "im")(zr, zi, rr, Mz, jz))


def contour_mean(gname, z, r, M):
    s = partial_sum(gname, z, r, M, T(M))
    return smt.cdiv(s, _c(T(M)))


def zarr(dt, L):
    return arr(L.shape, lambda i: smt.cmul(_c(T(dt)), L.at_(i)), "complex")


def exp_term(dt, L, half=False):
    f = T(dt) if not half else smt.rmul(Fraction(1, 2), T(dt))
    return arr(L.shape, lambda i: smt.cexp(smt.cmul(_c(f), L.at_(i))), "complex")


def coef(gname, dt, L, r, M):
    """dt * CM_g(dt L[idx], r, M): 'per-mode coefficients are the exact phi-function expressions' up to A7"""
    return arr(L.shape, lambda i: smt.cmul(_c(T(dt)), contour_mean(gname, smt.cmul(_c(T(dt)), L.at_(i)), r, M)), "complex")


def fields(order, dt, L, nonlinear_fun, M, r, opaque):
    f = {"dt": dt, "_exp_term": exp_term(dt, L)}
    if order >= 1:
        f["_nonlinear_fun"] = opaque(nonlinear_fun)
        for name, g in COEFS[order].items():
            f[name] = coef(g, dt, L, r, M)
    if order >= 3:
        f["_half_exp_term"] = exp_term(dt, L, half=True)
    return f


# ------------------------------------------------------------------------------- stage formulas
def _bmul(coef_arr, x):
    """coefficient array (E, ...) times state (C, ...) with channel broadcast"""
    return coef_arr * x


def step(order, obj, u):
    """Cox & Matthews (2002): ETD1 (eq. 4 / class docstring), ETD2RK eqs. 20-22, ETD3RK eqs. 23-25, ETD4RK eqs. 26-29,
    written with the stored per-mode arrays; N = the stepper's own nonlinear term."""
    E = obj._exp_term
    if order == 0:
        return E * u
    N = obj._nonlinear_fun
    if order == 1:
        return E * u + obj._coef_1 * N(u)
    if order == 2:
        Nu = N(u)
        a = E * u + obj._coef_1 * Nu
        return a + obj._coef_2 * (N(a) - Nu)
    Eh = obj._half_exp_term
    if order == 3:
        Nu = N(u)
        a = Eh * u + obj._coef_1 * Nu
        Na = N(a)
        b = E * u + obj._coef_2 * (2 * Na - Nu)
        Nb = N(b)
        return E * u + obj._coef_3 * Nu + obj._coef_4 * Na + obj._coef_5 * Nb
    if order == 4:
        Nu = N(u)
        a = Eh * u + obj._coef_1 * Nu
        Na = N(a)
        b = Eh * u + obj._coef_2 * Na
        Nb = N(b)
        c = Eh * a + obj._coef_3 * (2 * Nb - Nu)
        Nc = N(c)
        return E * u + obj._coef_4 * Nu + 2 * obj._coef_5 * (Na + Nb) + obj._coef_6 * Nc
    raise ValueError(order)
