"""Specs for exponax._spectral (written from the docstrings and properties C04, C05, C10, C17)."""
from __future__ import annotations

from fractions import Fraction

import z3

from symjnp import smt, values
from symjnp.smt import CX, PI
from symjnp.values import SArr

from .base import T, arr, axis_of_channel, csum, k_full, k_last, k_of, kappa, pick, rsum, wshape


def wavenumbers(D, N, indexing="ij"):
    """C04: 'the wavenumber array names' the integer wavenumber of each stored rfft mode; shape (D, N,..,N//2+1)
    for both indexings (it must multiply an rfftn result)."""
    def fn(idx):
        d, s = idx[0], idx[1:]
        return pick(d, [k_of(j, s, D, N, indexing) for j in range(D)])
    return arr((D,) + wshape(D, N), fn)


def scaled_wavenumbers(D, L, N, indexing="ij"):
    """docstring: 'Scaling is done by 2*pi/L'"""
    def fn(idx):
        d, s = idx[0], idx[1:]
        return pick(d, [kappa(j, s, D, N, L, indexing) for j in range(D)])
    return arr((D,) + wshape(D, N), fn)


def derivative_operator(D, L, N, indexing="ij"):
    """C01 mechanism: 'derivative symbol i*2*pi*k/L on the rfft layout'"""
    def fn(idx):
        d, s = idx[0], idx[1:]
        return CX(0, pick(d, [kappa(j, s, D, N, L, indexing) for j in range(D)]))
    return arr((D,) + wshape(D, N), fn, "complex")


def laplace_operator(dop, order=2):
    """docstring: sum over dims of (derivative operator)^order; order 0 -> ones; shape (1, ...)"""
    Dn = dop.shape[0]

    def fn(idx):
        s = idx[1:]
        if order == 0:
            return CX(1, 0)
        return csum([smt.cpow_int(dop.at_((d,) + s), order) for d in range(Dn)])
    return arr((1,) + tuple(dop.shape[1:]), fn, "complex")


def gradient_inner_product_operator(dop, velocity, order=1):
    """docstring: c . (nabla^order): sum_d c_d (i k_d)^order; shape (1, ...)"""
    Dn = dop.shape[0]

    def fn(idx):
        s = idx[1:]
        return csum([smt.cmul(CX(smt.R(velocity.at_((d,))), 0), smt.cpow_int(dop.at_((d,) + s), order)) for d in range(Dn)])
    return arr((1,) + tuple(dop.shape[1:]), fn, "complex")


def low_pass_mask(D, N, cutoff, axis_separate=True, indexing="ij"):
    """docstring: keep modes with |k_d| <= cutoff for every d (axis_separate) or |k|_2 <= cutoff"""
    c = T(cutoff)

    def fn(idx):
        s = idx[1:]
        ks = [k_of(d, s, D, N, indexing) for d in range(D)]
        if axis_separate:
            m = True
            for k in ks:
                m = smt.band(m, smt.rle(smt.rabs(k), c))
            return m
        return smt.rle(smt.rsqrt(rsum([smt.rmul(k, k) for k in ks])), c)
    return arr((1,) + wshape(D, N), fn, "bool")


def oddball_mask(D, N):
    """C04: 'Nyquist masks select exactly the modes they document': false exactly where some |k_d| = N/2 (N even)"""
    Nt = T(N)

    def fn(idx):
        s = idx[1:]
        m = True
        for d in range(D):
            k = k_of(d, s, D, N)
            m = smt.band(m, smt.rne(smt.rmul(2, smt.rabs(k)), Nt))
        return m
    return arr((1,) + wshape(D, N), fn, "bool")


def scaling_1d(k, N, den):
    """docstring of build_scaling_array: N at the mean mode and at the (even-N) Nyquist mode, N/den elsewhere"""
    Nt = T(N)
    special = smt.bor(smt.req(k, 0), smt.req(smt.rmul(2, smt.rabs(k)), Nt))
    return smt.rite(special, Nt, smt.rdiv(Nt, den))


SCALING_DENOMS = {  # (last axis, other axes), from the docstring tables of build_scaling_array
    "norm_compensation": (1, 1),
    "reconstruction": (2, 1),
    "coef_extraction": (2, 2),
}


def scaling_array(D, N, right_den, others_den, indexing="ij"):
    def fn(idx):
        s = idx[1:]
        p = 1
        for ax in range(D):
            if ax == D - 1:
                p = smt.rmul(p, scaling_1d(k_last(s[ax]), N, right_den))
            else:
                p = smt.rmul(p, scaling_1d(k_full(s[ax], N), N, others_den))
        return p
    return arr((1,) + wshape(D, N), fn)


def modes_slices(D, N):
    """docstring get_modes_slices: blocks = product over the non-last axes of {non-negative block, negative block};
    non-negative block [0 : (N+1)//2) ... for even N the Nyquist entry is excluded on full axes; last axis [0 : N//2+1)"""
    nyq = N // 2
    left = slice(None, (N + 1) // 2)      # 0 .. ceil(N/2)-1  (even: excludes N/2, odd: includes (N-1)/2)
    right = slice(-nyq, None)
    last = slice(None, nyq + 1)
    import itertools
    out = []
    # the code's documented order: last-axis slice slowest in product, then reversed -> reproduce ordering semantics:
    for combo in itertools.product(*([[last]] + [[left, right]] * (D - 1))):
        out.append((slice(None),) + tuple(reversed(combo)))
    return tuple(out)
