"""Specs for exponax._spectral (written from the docstrings and properties C04, C05, C10, C17)."""
from __future__ import annotations

from fractions import Fraction

import z3

from symjnp import smt, values
from symjnp.smt import CX, PI
from symjnp.values import SArr

from .base import T, arr, axis_of_channel, csum, k_full, k_last, k_of, kappa, pick, rsum, wshape


def wavenumbers(D, N, indexing="ij"):
    """C04: 'the wavenumber array names' the integer wavenumber of each stored rfft mode; shape (D, N,..,N//2+1)
    for both indexings (it must multiply an rfftn result)."""
    def fn(idx):
        d, s = idx[0], idx[1:]
        return pick(d, [k_of(j, s, D, N, indexing) for j in range(D)])
    return arr((D,) + wshape(D, N), fn)


def scaled_wavenumbers(D, L, N, indexing="ij"):
    """docstring: 'Scaling is done by 2*pi/L'"""
    def fn(idx):
        d, s = idx[0], idx[1:]
        return pick(d, [kappa(j, s, D, N, L, indexing) for j in range(D)])
    return arr((D,) + wshape(D, N), fn)


def derivative_operator(D, L, N, indexing="ij"):
    """C01 mechanism: 'derivative symbol i*2*pi*k/L on the rfft layout'"""
    def fn(idx):
        d, s = idx[0], idx[1:]
        return CX(0, pick(d, [kappa(j, s, D, N, L, indexing) for j in range(D)]))
    return arr((D,) + wshape(D, N), fn, "complex")


def laplace_operator(dop, order=2):
    """docstring: sum over dims of (derivative operator)^order; order 0 -> ones; shape (1, ...)"""
    Dn = dop.shape[0]

    def fn(idx):
        s = idx[1:]
        if order == 0:
            return CX(1, 0)
        return csum([smt.cpow_int(dop.at_((d,) + s), order) for d in range(Dn)])
    return arr((1,) + tuple(dop.shape[1:]), fn, "complex")


def gradient_inner_product_operator(dop, velocity, order=1):
    """docstring: c . (nabla^order): sum_d c_d (i k_d)^order; shape (1, ...)"""
    Dn = dop.shape[0]

    def fn(idx):
        s = idx[1:]
        return csum([smt.cmul(CX(smt.R(velocity.at_((d,))), 0), smt.cpow_int(dop.at_((d,) + s), order)) for d in range(Dn)])
    return arr((1,) + tuple(dop.shape[1:]), fn, "complex")


def low_pass_mask(D, N, cutoff, axis_separate=True, indexing="ij"):
    """docstring: keep modes with |k_d| <= cutoff for every d (axis_separate) or |k|_2 <= cutoff"""
    c = T(cutoff)

    def fn(idx):
        s = idx[1:]
        ks = [k_of(d, s, D, N, indexing) for d in range(D)]
        if axis_separate:
            m = True
            for k in ks:
                m = smt.band(m, smt.rle(smt.rabs(k), c))
            return m
        return smt.rle(smt.rsqrt(rsum([smt.rmul(k, k) for k in ks])), c)
    return arr((1,) + wshape(D, N), fn, "bool")


def oddball_mask(D, N):
    """C04: 'Nyquist masks select exactly the modes they document': false exactly where some |k_d| = N/2 (N even)"""
    Nt = T(N)

    def fn(idx):
        s = idx[1:]
        m = True
        for d in range(D):
            k = k_of(d, s, D, N)
            m = smt.band(m, smt.rne(smt.rmul(2, smt.rabs(k)), Nt))
        return m
    return arr((1,) + wshape(D, N), fn, "bool")


def scaling_1d(k, N, den):
    """docstring of build_scaling_array: N at the mean mode and at the (even-N) Nyquist mode, N/den elsewhere"""
    Nt = T(N)
    special = smt.bor(smt.req(k, 0), smt.req(smt.rmul(2, smt.rabs(k)), Nt))
    return smt.rite(special, Nt, smt.rdiv(Nt, den))


SCALING_DENOMS = {  # (last axis, other axes), from the docstring tables of build_scaling_array
    "norm_compensation": (1, 1),
    "reconstruction": (2, 1),
    "coef_extraction": (2, 2),
}


def scaling_array(D, N, right_den, others_den, indexing="ij"):
    def fn(idx):
        s = idx[1:]
        p = 1
        for ax in range(D):
            if ax == D - 1:
                p = smt.rmul(p, scaling_1d(k_last(s[ax]), N, right_den))
            else:
                p = smt.rmul(p, scaling_1d(k_full(s[ax], N), N, others_den))
        return p
    return arr((1,) + wshape(D, N), fn)


def modes_slices(D, N):
    """docstring get_modes_slices: blocks = product over the non-last axes of {non-negative block, negative block};
    non-negative block [0 : (N+1)//2) ... for even N the Nyquist entry is excluded on full axes; last axis [0 : N//2+1)"""
    nyq = N // 2
    left = slice(None, (N + 1) // 2)      # 0 .. ceil(N/2)-1  (even: excludes N/2, odd: includes (N-1)/2)
    right = slice(-nyq, None)
    last = slice(None, nyq + 1)
    import itertools
    out = []
    # the code's documented order: last-axis slice slowest in product, then reversed -> reproduce ordering semantics:
    for combo in itertools.product(*([[last]] + [[left, right]] * (D - 1))):
        out.append((slice(None),) + tuple(reversed(combo)))
    return tuple(out)


# ======================================================================= transforms & friends
from symjnp import ops  # noqa: E402


def last_axes(ndim, D):
    return tuple(range(ndim - D, ndim))


def fft(field, num_spatial_dims=None):
    """C04 mechanism 'forward transform with backward normalisation': rfftn over the LAST D axes (D = ndim-1 if omitted)"""
    D = field.ndim - 1 if num_spatial_dims is None else num_spatial_dims
    return ops.rfftn(field, axes=last_axes(field.ndim, D))


def ifft(field_hat, num_spatial_dims=None, num_points=None):
    """inverse rfftn over the last D axes with output sizes s=(N,)*D; N defaults to shape[-2] for D>=2"""
    D = field_hat.ndim - 1 if num_spatial_dims is None else num_spatial_dims
    N = field_hat.shape[-2] if num_points is None else num_points
    return ops.irfftn(field_hat, s=(N,) * D, axes=last_axes(field_hat.ndim, D))


def derivative(field, L, order=1, indexing="ij"):
    """C05 mechanism: derivative = ifft((i k)^order * fft(u)), gradient axis inserted after the channel axis;
    a single channel returns shape (D, ...) (docstring)"""
    C, D, N = field.shape[0], field.ndim - 1, field.shape[1]
    dop = derivative_operator(D, L, N, indexing)
    fh = fft(field, D)
    if values.dims_equal(C, 1):
        hat = arr((D,) + wshape(D, N), lambda idx: smt.cmul(smt.cpow_int(dop.at_((idx[0],) + idx[1:]), order), fh.at_((0,) + idx[1:])), "complex")
    else:
        hat = arr((C, D) + wshape(D, N), lambda idx: smt.cmul(smt.cpow_int(dop.at_((idx[1],) + idx[2:]), order), fh.at_((idx[0],) + idx[2:])), "complex")
    return ifft(hat, D, N)


def make_incompressible(field, indexing="ij"):
    """C10 mechanism 'pressure-Poisson correction': u_hat - grad(inv_laplace(div u_hat)), mean mode untouched"""
    D, N = field.ndim - 1, field.shape[1]
    dop = derivative_operator(D, 1, N, indexing)
    fh = fft(field, D)

    def fn(idx):
        c, s = idx[0], idx[1:]
        div = csum([smt.cmul(dop.at_((j,) + s), fh.at_((j,) + s)) for j in range(D)])
        lap = csum([smt.cpow_int(dop.at_((j,) + s), 2) for j in range(D)])  # real: -|kappa|^2
        is0 = smt.req(lap.re, 0)
        inv = smt.rite(is0, 1, smt.rdiv(1, lap.re))
        corr = smt.cmul(dop.at_((c,) + s), smt.cmul(CX(inv, 0), div))
        return smt.csub(fh.at_((c,) + s), corr)
    return ifft(arr((D,) + wshape(D, N), fn, "complex"), D, N)


def fourier_coefficients(state, scaling_compensation_mode="coef_extraction", round=5, indexing="ij"):
    """docstring: fft(state) divided by the scaling array of the chosen mode (None: no scaling), rounded to `round` decimals"""
    D, N = state.ndim - 1, state.shape[-1]
    fh = fft(state)
    if scaling_compensation_mode is not None:
        sc = scaling_array(D, N, *SCALING_DENOMS[scaling_compensation_mode], indexing)
        co = arr(fh.shape, lambda idx: smt.cdiv(fh.at_(idx), CX(sc.at_((0,) + idx[1:]), 0)), "complex")
    else:
        co = fh
    if round is not None:
        co = arr(co.shape, lambda idx, co=co: CX(smt.ROUND(smt.zr(co.at_(idx).re)), smt.ROUND(smt.zr(co.at_(idx).im))), "complex")
    return co


def spectrum(state, power=True, radial_binning="sum"):
    """C17: mode k contributes to bin b iff b-1/2 <= |k| < b+1/2 (b = 0..N//2); amplitude weight 1/recon,
    power weight 1/(2*recon*N^D) (i.e. 0.5 * |u_hat|/recon * |u_hat|/norm_comp); average = sum / count"""
    D, N = state.ndim - 1, state.shape[-1]
    C = state.shape[0]
    fh = fft(state, D)
    rec = scaling_array(D, N, *SCALING_DENOMS["reconstruction"])
    nc = scaling_array(D, N, *SCALING_DENOMS["norm_compensation"])

    def q(c, s):
        a = smt.rsqrt(smt.cabs2(fh.at_((c,) + s)))
        mag = smt.rdiv(a, rec.at_((0,) + s))
        if power:
            return smt.rmul(Fraction(1, 2), smt.rmul(mag, smt.rdiv(a, nc.at_((0,) + s))))
        return mag
    if D == 1:
        return arr((C, N // 2 + 1), lambda idx: q(idx[0], idx[1:]))
    nb = N // 2 + 1

    def inbin(b, s):
        r = smt.rsqrt(rsum([smt.rmul(k_of(d, s, D, N), k_of(d, s, D, N)) for d in range(D)]))
        return smt.band(smt.rge(r, smt.rsub(b, Fraction(1, 2))), smt.rlt(r, smt.radd(b, Fraction(1, 2))))
    # build the (C, nb, spatial...) integrand and SUM over the spatial axes
    integrand = arr((C, nb) + wshape(D, N), lambda idx: smt.rite(inbin(idx[1], idx[2:]), q(idx[0], idx[2:]), 0))
    total = values.reduce_("sum", integrand, tuple(range(2, 2 + D)), False)
    if radial_binning == "sum":
        return total
    count = values.reduce_("sum", arr((C, nb) + wshape(D, N), lambda idx: smt.rite(inbin(idx[1], idx[2:]), 1, 0)), tuple(range(2, 2 + D)), False)
    return arr((C, nb), lambda idx: smt.rdiv(total.at_(idx), count.at_(idx)))


# ============================================================================== grid utilities
def grid(D, L, N, full=False, zero_centered=False, indexing="ij"):
    """C04: 'The grid is left-inclusive/right-exclusive with spacing L/N'; full adds the right end point,
    zero_centered subtracts L/2, xy swaps the first two axes (meshgrid convention)."""
    n = N + 1 if full else N

    def fn(idx):
        d, s = idx[0], idx[1:]
        comps = []
        for j in range(D):
            x = smt.rdiv(smt.rmul(s[axis_of_channel(j, D, indexing)], T(L)), T(N))
            if zero_centered:
                x = smt.rsub(x, smt.rdiv(T(L), 2))
            comps.append(x)
        return pick(d, comps)
    return arr((D,) + (n,) * D, fn)


def wrap_bc(u):
    """docstring: append the periodic image of the first entry along every spatial axis"""
    D = u.ndim - 1
    shape = (u.shape[0],) + tuple(d + 1 for d in u.shape[1:])

    def fn(idx):
        src = [idx[0]]
        for ax in range(1, D + 1):
            n = T(u.shape[ax])
            src.append(smt.rite(smt.req(idx[ax], n), 0, idx[ax]))
        src = [v if isinstance(v, int) else smt.norm(z3.simplify(smt.z(v))) for v in src]
        return u.at_(tuple(src))
    return arr(shape, fn, u.kind)
