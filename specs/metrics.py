"""Specs for exponax.metrics (C16): consistent quadratures of the documented norms."""
from __future__ import annotations

from fractions import Fraction

import z3

from symjnp import ops, smt, values
from symjnp.smt import CX
from symjnp.values import SArr, SFloat

from . import spectral as S
from .base import T, arr, kappa, rsum, wshape


def rpow(x, p):
    """x ** p for a non-negative base and a concrete / symbolic real exponent"""
    return smt.rpow_real(x, T(p))


def _all_axes(a):
    return tuple(range(a.ndim))


def spatial_aggregate(s, D, L, N, p, q):
    """docstring of spatial_aggregator: ( (L/N)^D * sum |s|^p )^q, q defaults to 1/p  (Riemann sum of the L^p-type quantity)"""
    if q is None:
        q = smt.rdiv(1, T(p))
    scale = smt.rpow_int(smt.rdiv(T(L), T(N)), D)
    tot = values.reduce_("sum", arr(s.shape, lambda idx: rpow(smt.rabs(smt.R(s.at_(idx))), p)), None, False)
    return arr((), lambda i: rpow(smt.rmul(scale, tot.at_(())), q))


def per_channel(f, state):
    """array (C,) of f(state[c])"""
    C = state.shape[0]

    def fn(idx):
        c = idx[0]
        sub = arr(state.shape[1:], lambda j: state.at_((c,) + tuple(j)), state.kind)
        return f(sub).at_(())
    return arr((C,), fn)


def spatial_norm(state, ref, mode, L, p, q):
    """docstring of spatial_norm: per-channel aggregate of the difference (absolute), divided by the aggregate of the
    reference (normalized), or 2*diff/(state+ref) (symmetric); summed over channels"""
    D, N = state.ndim - 1, state.shape[-1]
    diff = state if ref is None else state - ref
    agg = lambda a: spatial_aggregate(a, D, L, N, p, q)  # noqa: E731
    d = per_channel(agg, diff)
    if mode == "normalized":
        r = per_channel(agg, ref)
        pc = arr(d.shape, lambda i: smt.rdiv(d.at_(i), r.at_(i), guard=False))
    elif mode == "symmetric":
        a, r = per_channel(agg, state), per_channel(agg, ref)
        pc = arr(d.shape, lambda i: smt.rdiv(smt.rmul(2, d.at_(i)), smt.radd(a.at_(i), r.at_(i)), guard=False))
    else:
        pc = d
    return values.reduce_("sum", pc, None, False)


SPATIAL = {  # name -> (mode, inner, outer), from the docstrings
    "MAE": ("absolute", 1.0, 1.0), "nMAE": ("normalized", 1.0, 1.0), "sMAE": ("symmetric", 1.0, 1.0),
    "MSE": ("absolute", 2.0, 1.0), "nMSE": ("normalized", 2.0, 1.0), "sMSE": ("symmetric", 2.0, 1.0),
    "RMSE": ("absolute", 2.0, 0.5), "nRMSE": ("normalized", 2.0, 0.5), "sRMSE": ("symmetric", 2.0, 0.5),
}
FOURIER = {
    "fourier_MAE": ("absolute", 1.0, 1.0), "fourier_nMAE": ("normalized", 1.0, 1.0),
    "fourier_MSE": ("absolute", 2.0, 1.0), "fourier_nMSE": ("normalized", 2.0, 1.0),
    "fourier_RMSE": ("absolute", 2.0, 0.5), "fourier_nRMSE": ("normalized", 2.0, 0.5),
}


def fourier_aggregate(s, D, L, N, p, q, low, high, derivative_order):
    """docstring of fourier_aggregator: coefficients below the absolute floor 1e-5 are zeroed; band mask =
    not lowpass(low-1) and lowpass(high) (defaults 0 and N//2+1); optional factor (i kappa_d)^order (one term per
    direction d, summed); Parseval weights 1/reconstruction; ((L/N)^D * sum |.|^p / recon)^q"""
    if q is None:
        q = smt.rdiv(1, T(p))
    fh = S.fft(s, D)
    floor = Fraction(1, 100000)
    band = low is not None or high is not None
    lo = 0 if low is None else low
    hi = (N // 2 + 1) if high is None else high
    rec = S.scaling_array(D, N, *S.SCALING_DENOMS["reconstruction"])
    lowm = S.low_pass_mask(D, N, _num(smt.rsub(T(lo), 1)), True) if band else None
    highm = S.low_pass_mask(D, N, _num(T(hi)), True) if band else None
    scale = smt.rpow_int(smt.rdiv(T(L), T(N)), D)
    dirs = range(D) if derivative_order is not None else [None]
    total = 0
    for d in dirs:
        def elem(idx, d=d):
            z = fh.at_(idx)
            mag2 = smt.cabs2(z)
            small = smt.rlt(smt.rsqrt(mag2), floor)
            z = smt.cite(small, CX(0, 0), z)
            if band:
                keep = smt.band(smt.bnot(lowm.at_((0,) + idx)), highm.at_((0,) + idx))
                z = smt.cite(keep, z, CX(0, 0))
            if d is not None:
                z = smt.cmul(z, smt.cpow_int(CX(0, kappa(d, idx, D, N, L)), derivative_order))
            return smt.rdiv(rpow(smt.rsqrt(smt.cabs2(z)), p), rec.at_((0,) + idx))
        tot = values.reduce_("sum", arr(fh.shape, elem), None, False)
        total = smt.radd(total, rpow(smt.rmul(scale, tot.at_(())), q))
    return arr((), lambda i: total)


class _num:
    def __init__(self, t):
        self.t = t

    def _sym_term(self):
        return self.t


def fourier_norm(state, ref, mode, L, p, q, low, high, derivative_order):
    D, N = state.ndim - 1, state.shape[-1]
    diff = state if ref is None else state - ref
    agg = lambda a: fourier_aggregate(a, D, L, N, p, q, low, high, derivative_order)  # noqa: E731
    d = per_channel(agg, diff)
    if mode == "normalized":
        r = per_channel(agg, ref)
        pc = arr(d.shape, lambda i: smt.rdiv(d.at_(i), r.at_(i), guard=False))
    else:
        pc = d
    return values.reduce_("sum", pc, None, False)


def correlation_one(u, v):
    """docstring: inner product of the two fields after normalising each to unit l2 norm"""
    nu = values.reduce_("sum", u * u, None, False)
    nv = values.reduce_("sum", v * v, None, False)
    uv = values.reduce_("sum", u * v, None, False)
    return arr((), lambda i: smt.rdiv(uv.at_(()), smt.rmul(smt.rsqrt(nu.at_(())), smt.rsqrt(nv.at_(()))), guard=False))


def correlation(u, v):
    """mean over channels of the per-channel correlation"""
    C = u.shape[0]

    def fn(idx):
        c = idx[0]
        a = arr(u.shape[1:], lambda j: u.at_((c,) + tuple(j)))
        b = arr(v.shape[1:], lambda j: v.at_((c,) + tuple(j)))
        return correlation_one(a, b).at_(())
    return values.reduce_("mean", arr((C,), fn), None, False)
