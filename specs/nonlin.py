"""Specs for exponax.nonlin_fun and the reaction nonlinearities (C03): each term is the documented operator evaluated
pseudo-spectrally:  P = multiplication by the dealiasing mask,  F/IF = rfftn/irfftn over the last D axes,
d_j = derivative_operator[j] (= i*kappa_j at the stepper level)."""
from __future__ import annotations

from fractions import Fraction

import z3

from symjnp import ops, smt, values
from symjnp.smt import CX
from symjnp.values import SArr

from . import spectral as S
from .base import T, arr, csum, pick, rsum, wshape


def dealias_cutoff(N, fraction):
    """C03 mechanism: 'keep |k|_inf <= fraction*(N//2)-1'"""
    return smt.rsub(smt.rmul(T(fraction), T(N // 2)), 1)


def base_fields(D, N, fraction):
    f = {"num_spatial_dims": D, "num_points": N}
    f["dealiasing_mask"] = None if fraction is None else S.low_pass_mask(D, N, _C(dealias_cutoff(N, fraction)), True)
    return f


class _C:
    """wrap an R-value so that spec helpers expecting a python-level scalar accept it"""

    def __init__(self, t):
        self.t = t

    def _sym_term(self):
        return self.t


def _mask(obj, idx_s):
    m = obj.dealiasing_mask
    if m is None:
        return True
    return m.at_((0,) + tuple(idx_s))


def P(obj, xh):
    """mask (x) x_hat, mask broadcast over channels"""
    if obj.dealiasing_mask is None:
        return xh
    D = obj.num_spatial_dims
    nb = xh.ndim - D
    return arr(xh.shape, lambda idx: smt.cite(_mask(obj, idx[nb:]), xh.at_(idx), CX(0, 0)), "complex")


def Fm(obj, x):
    """BaseNonlinearFun.fft: mask (x) F(x)"""
    D = obj.num_spatial_dims
    return P(obj, ops.rfftn(x, axes=tuple(range(x.ndim - D, x.ndim))))


def IFm(obj, xh):
    """BaseNonlinearFun.ifft: IF(mask (x) x_hat) with s = (N,)*D"""
    D, N = obj.num_spatial_dims, obj.num_points
    return ops.irfftn(P(obj, xh), s=(N,) * D, axes=tuple(range(xh.ndim - D, xh.ndim)))


def dealias(obj, xh):
    return P(obj, xh)


def _scale(s, a):
    """real scalar times complex array"""
    st = T(s)
    return arr(a.shape, lambda idx: smt.cmul(CX(st, 0), a.at_(idx)), "complex")


def zero(obj, u_hat):
    return arr(u_hat.shape, lambda idx: CX(0, 0), "complex")


# ---------------------------------------------------------------------------------- convection
def convection(obj, u_hat):
    """class docstring of ConvectionNonlinearFun:
       single channel, conservative      : -b 1/2 (1 . nabla)(u^2)            = -b/2 (sum_j d_j) F[u^2]
       single channel, non-conservative  : -b u (1 . nabla) u                 = -b F[ u * sum_j IF(d_j u_hat) ]   (per channel, summed over channels keepdims)
       multi channel, conservative       : -b 1/2 nabla . (u (x) u)           : out_i = -b/2 sum_j d_j F[u_i u_j]
       multi channel, non-conservative   : -b (u . nabla) u                   : out_i = -b F[ sum_j u_j IF(d_j u_hat_i) ]"""
    D, b, dop = obj.num_spatial_dims, obj.scale, obj.derivative_operator
    C = u_hat.shape[0]
    u = IFm(obj, u_hat)
    nb = 1
    if obj.single_channel:
        if obj.conservative:
            sq = Fm(obj, u * u)
            return arr(u_hat.shape, lambda idx: smt.cmul(CX(smt.rmul(Fraction(-1, 2), T(b)), 0),
                                                         smt.cmul(csum([dop.at_((j,) + idx[1:]) for j in range(D)]), sq.at_(idx))), "complex")
        # non conservative: derivative_operator (D,...) * u_hat (C,...) broadcasts => requires C == D or C == 1
        prod_shape, _ = values.broadcast_shapes([tuple(dop.shape), tuple(u_hat.shape)])
        grad_hat = arr(prod_shape, lambda idx: smt.cmul(dop.at_(((idx[0] if not values.is_one(dop.shape[0]) else 0),) + idx[1:]),
                                                        u_hat.at_(((idx[0] if not values.is_one(u_hat.shape[0]) else 0),) + idx[1:])), "complex")
        nabla_u = IFm(obj, grad_hat)
        conv = values.reduce_("sum", u * nabla_u, 0, True)
        return _scale(smt.rneg(T(b)), Fm(obj, conv))
    if obj.conservative:
        outer = arr((C, C) + tuple(u.shape[1:]), lambda idx: smt.rmul(u.at_((idx[0],) + idx[2:]), u.at_((idx[1],) + idx[2:])))
        oh = Fm(obj, outer)
        return arr(u_hat.shape, lambda idx: smt.cmul(CX(smt.rmul(Fraction(-1, 2), T(b)), 0),
                                                     csum([smt.cmul(dop.at_((j,) + idx[1:]), oh.at_((idx[0], j) + idx[1:])) for j in range(D)])), "complex")
    gh = arr((C, D) + tuple(u_hat.shape[1:]), lambda idx: smt.cmul(dop.at_((idx[1],) + idx[2:]), u_hat.at_((idx[0],) + idx[2:])), "complex")
    g = IFm(obj, gh)
    conv = arr(u.shape, lambda idx: rsum([smt.rmul(u.at_((j,) + idx[1:]), g.at_((idx[0], j) + idx[1:])) for j in range(D)]))
    return _scale(smt.rneg(T(b)), Fm(obj, conv))


# ------------------------------------------------------------------------------- gradient norm
def gradient_norm(obj, u_hat):
    """docstring: -b 1/2 |nabla u|^2 per channel, with the spatial mean removed when zero_mode_fix"""
    D, b, dop = obj.num_spatial_dims, obj.scale, obj.derivative_operator
    C = u_hat.shape[0]
    gh = arr((C, D) + tuple(u_hat.shape[1:]), lambda idx: smt.cmul(dop.at_((idx[1],) + idx[2:]), u_hat.at_((idx[0],) + idx[2:])), "complex")
    g = IFm(obj, gh)
    sq = arr((C,) + tuple(g.shape[2:]), lambda idx: rsum([smt.rmul(g.at_((idx[0], j) + idx[1:]), g.at_((idx[0], j) + idx[1:])) for j in range(D)]))
    if obj.zero_mode_fix:
        m = values.reduce_("mean", sq, tuple(range(1, 1 + D)), True)
        sq = sq - m
    return _scale(smt.rmul(Fraction(-1, 2), T(b)), Fm(obj, sq))


# ---------------------------------------------------------------------------------- polynomial
def polynomial(obj, u_hat):
    """docstring: sum_p c_p u^p evaluated pointwise"""
    u = IFm(obj, u_hat)
    cs = [T(c) for c in obj.coefficients]

    def fn(idx):
        x = u.at_(idx)
        return rsum([smt.rmul(c, smt.rpow_int(x, p)) for p, c in enumerate(cs)])
    return Fm(obj, arr(u.shape, fn))


def general_nonlinear(obj, u_hat):
    """docstring of GeneralNonlinearFun: b_0 u^2 + b_1 1/2 (1.nabla)(u^2) + b_2 1/2 |nabla u|^2 (the three sub-terms,
    each dealiased on its own)"""
    a = polynomial(obj.square_nonlinear_fun, u_hat)
    b = convection(obj.convection_nonlinear_fun, u_hat)
    c = gradient_norm(obj.gradient_norm_nonlinear_fun, u_hat)
    return a + b + c


# ----------------------------------------------------------------------------------- vorticity
def inv_laplacian_guarded(dop, zero_value):
    """1/Laplacian with `zero_value` where the Laplacian symbol vanishes"""
    Dn = dop.shape[0]

    def fn(idx):
        lap = csum([smt.cpow_int(dop.at_((j,) + idx[1:]), 2) for j in range(Dn)])
        is0 = smt.band(smt.req(lap.re, 0), smt.req(lap.im, 0))
        with values.guard(smt.bnot(is0)):
            inv = smt.cdiv(CX(1, 0), lap)
        return smt.cite(is0, CX(zero_value, 0), inv)
    return arr((1,) + tuple(dop.shape[1:]), fn, "complex")


def vorticity_convection(obj, u_hat):
    """docstring VorticityConvection2d: -b ( u d_x omega + v d_y omega ), psi_hat = omega_hat / Laplacian (1 at k=0),
    u = d_y psi, v = -d_x psi"""
    b, dop, inv = obj.convection_scale, obj.derivative_operator, obj.inv_laplacian
    psi = arr(u_hat.shape, lambda idx: smt.cmul(inv.at_((0,) + idx[1:]), u_hat.at_(idx)), "complex")

    def mul(d, a):
        return arr(a.shape, lambda idx: smt.cmul(dop.at_((d,) + idx[1:]), a.at_(idx)), "complex")
    u = IFm(obj, mul(1, psi))
    v = IFm(obj, _scale(-1, mul(0, psi)))
    wx = IFm(obj, mul(0, u_hat))
    wy = IFm(obj, mul(1, u_hat))
    return _scale(smt.rneg(T(b)), Fm(obj, u * wx + v * wy))


def leray(obj, u_hat):
    """docstring Leray: u_hat - grad(inv_laplace(div u_hat)) = u_hat - d (d . u_hat)/Laplacian, mean mode untouched"""
    dop, inv = obj.derivative_operator, obj.inv_laplacian
    Dn = dop.shape[0]

    def fn(idx):
        div = csum([smt.cmul(dop.at_((j,) + idx[1:]), u_hat.at_((j,) + idx[1:])) for j in range(Dn)])
        p = smt.cmul(smt.cneg(inv.at_((0,) + idx[1:])), div)
        return smt.cadd(u_hat.at_(idx), smt.cmul(dop.at_(idx), p))
    return arr(u_hat.shape, fn, "complex")


def pick_c(dop, idx):
    c = idx[0]
    if isinstance(c, int):
        return dop.at_((c,) + idx[1:])
    return values.select_by_index(c, [dop.at_((j,) + idx[1:]) for j in range(dop.shape[0])], "complex")


def cross(a, b, kind):
    """documented components of a x b"""
    def comp(i, idx):
        j, k = (i + 1) % 3, (i + 2) % 3
        x1, y1 = a.at_((j,) + idx), b.at_((k,) + idx)
        x2, y2 = a.at_((k,) + idx), b.at_((j,) + idx)
        if kind == "complex":
            return smt.csub(smt.cmul(smt.C(x1), smt.C(y1)), smt.cmul(smt.C(x2), smt.C(y2)))
        return smt.rsub(smt.rmul(x1, y1), smt.rmul(x2, y2))
    return arr((3,) + tuple(a.shape[1:]), lambda idx: pick(idx[0], [comp(i, idx[1:]) for i in range(3)], kind), kind)


def projected_convection(obj, u_hat):
    """docstring ProjectedConvection3d: Leray( F[ u x (nabla x u) ] ) (rotational form), dealiased"""
    dop = obj.derivative_operator
    curl_hat = cross(dop, u_hat, "complex")
    curl = IFm(obj, curl_hat)
    vel = IFm(obj, u_hat)
    conv = cross(vel, curl, "real")
    return leray(obj.leray_projection, Fm(obj, conv))


# ------------------------------------------------------------------------------------ reaction
def cahn_hilliard(obj, u_hat):
    """docstring: scale * Laplacian( u^3 ), u from the dealiased state"""
    u = IFm(obj, P(obj, u_hat))
    cube = arr(tuple(u.shape[1:]), lambda idx: smt.rpow_int(u.at_((0,) + idx), 3))
    ch = Fm(obj, cube)
    lap = obj.laplace_operator
    sc = T(obj.scale)
    return arr(lap.shape, lambda idx: smt.cmul(CX(sc, 0), smt.cmul(lap.at_(idx), ch.at_(idx[1:]))), "complex")


def gray_scott(obj, u_hat):
    """docstring GrayScott: f(1-u0) - u0 u1^2 ;  -(f+k) u1 + u0 u1^2"""
    u = IFm(obj, P(obj, u_hat))
    f, k = T(obj.feed_rate), T(obj.kill_rate)

    def fn(idx):
        a, b = u.at_((0,) + idx[1:]), u.at_((1,) + idx[1:])
        r0 = smt.rsub(smt.rmul(f, smt.rsub(1, a)), smt.rmul(a, smt.rmul(b, b)))
        r1 = smt.radd(smt.rmul(smt.rneg(smt.radd(f, k)), b), smt.rmul(a, smt.rmul(b, b)))
        return pick(idx[0], [r0, r1])
    return Fm(obj, arr(u.shape, fn))


def belousov_zhabotinsky(obj, u_hat):
    """docstring: u0+u1-u0u1-u0^2 ; u2-u1-u0u1 ; u0-u2"""
    u = IFm(obj, P(obj, u_hat))

    def fn(idx):
        a, b, c = (u.at_((j,) + idx[1:]) for j in range(3))
        r0 = smt.rsub(smt.rsub(smt.radd(a, b), smt.rmul(a, b)), smt.rmul(a, a))
        r1 = smt.rsub(smt.rsub(c, b), smt.rmul(a, b))
        r2 = smt.rsub(a, c)
        return pick(idx[0], [r0, r1, r2])
    return Fm(obj, arr(u.shape, fn))
