"""Spec vocabulary.  Spec functions are written from the property statements and the documented formulas
(docstrings / stepper overview), NOT from the code; each cites the sentence it encodes."""
from __future__ import annotations

from fractions import Fraction

import z3

from symjnp import smt, values
from symjnp.smt import CX, PI
from symjnp.values import SArr, SInt, dim_term


def T(x):
    """dimension / scalar -> R-value"""
    if isinstance(x, (SInt, values.SFloat)):
        return x.t
    return smt.R(x)


def arr(shape, fn, kind="real"):
    return SArr(tuple(shape), fn, kind)


def wshape(D, N):
    """C04: 'rfft layout': full axes of length N, last axis N//2+1"""
    return (N,) * (D - 1) + (N // 2 + 1,)


def k_full(i, N):
    """integer wavenumber of stored index i on a non-halved axis of length N:
    0,1,..,ceil(N/2)-1 then the negative ones; for even N the index N/2 carries -N/2 (numpy convention)."""
    Nt = T(N)
    return smt.rite(smt.rlt(smt.rmul(2, i), Nt), i, smt.rsub(i, Nt))


def k_last(i):
    return i


def axis_of_channel(d, D, indexing="ij"):
    """which array axis the d-th coordinate direction runs along (xy swaps the first two, as make_grid/meshgrid document)"""
    if indexing == "xy" and D >= 2 and d in (0, 1):
        return 1 - d
    return d


def k_of(d, sidx, D, N, indexing="ij"):
    """integer wavenumber component d at spatial (Fourier) index tuple sidx (len D)"""
    ax = axis_of_channel(d, D, indexing)
    return k_last(sidx[ax]) if ax == D - 1 else k_full(sidx[ax], N)


def kappa(d, sidx, D, N, L, indexing="ij"):
    """scaled wavenumber 2*pi*k/L"""
    return smt.rmul(smt.rdiv(smt.rmul(2, PI), T(L)), k_of(d, sidx, D, N, indexing))


def pick(j, items, kind="real"):
    """items[j] for an int or symbolic channel index"""
    if isinstance(j, int):
        return items[j]
    return values.select_by_index(j, items, kind)


def csum(items):
    acc = CX(0, 0)
    for it in items:
        acc = smt.cadd(acc, it)
    return acc


def rsum(items):
    acc = 0
    for it in items:
        acc = smt.radd(acc, it)
    return acc
