"""Specs for the stepper classes: the documented linear symbol sigma_doc of each PDE (d_j -> i kappa_j), the documented
nonlinear term, and the documented coefficient conversions (stepper overview table, class docstrings, C01/C13)."""
from __future__ import annotations

from fractions import Fraction

import z3

from symjnp import smt, values
from symjnp.smt import CX, PI

from . import nonlin as SN
from . import spectral as S
from .base import T, arr, csum, kappa, pick, rsum, wshape

I = CX(0, 1)


def ik(k):
    return CX(0, k)


def cpow(z, n):
    return smt.cpow_int(z, n)


def cscale(r, z):
    return smt.cmul(CX(r, 0), z)


# ------------------------------------------------------------------------------ linear symbols
def sym_advection(kap, c):
    """u_t + c . grad u = 0  ->  -sum_d c_d i kappa_d"""
    return smt.cneg(csum([cscale(c[d], ik(kap[d])) for d in range(len(kap))]))


def sym_diffusion(kap, A):
    """u_t = div(A grad u)  ->  -kappa^T A kappa"""
    D = len(kap)
    return CX(smt.rneg(rsum([smt.rmul(A[i][j], smt.rmul(kap[i], kap[j])) for i in range(D) for j in range(D)])), 0)


def sym_dispersion(kap, xi, advect_on_diffusion):
    """u_t = xi . (grad^3 u) -> sum_d xi_d (i kappa_d)^3 ;  spatially mixing: (xi . grad)(Laplace u) -> (xi . i kappa)(-|kappa|^2)"""
    D = len(kap)
    if advect_on_diffusion:
        adv = csum([cscale(xi[d], ik(kap[d])) for d in range(D)])
        lap = CX(smt.rneg(rsum([smt.rmul(k, k) for k in kap])), 0)
        return smt.cmul(adv, lap)
    return csum([cscale(xi[d], cpow(ik(kap[d]), 3)) for d in range(D)])


def sym_hyper_diffusion(kap, mu, diffuse_on_diffuse):
    """u_t = -mu sum_d d_d^4 u -> -mu sum kappa_d^4 ; mixing: -mu Laplace(Laplace u) -> -mu |kappa|^4"""
    if diffuse_on_diffuse:
        l = rsum([smt.rmul(k, k) for k in kap])
        return CX(smt.rneg(smt.rmul(mu, smt.rmul(l, l))), 0)
    return CX(smt.rneg(smt.rmul(mu, rsum([smt.rpow_int(k, 4) for k in kap]))), 0)


def sym_generic(kap, coeffs):
    """documented generic symbol: sum_j a_j (1 . grad^j) = sum_j a_j sum_d (i kappa_d)^j"""
    return csum([cscale(T(a), csum([cpow(ik(k), j) for k in kap])) for j, a in enumerate(coeffs)])


def sym_laplace(kap, order=2):
    return csum([cpow(ik(k), order) for k in kap])


# ---------------------------------------------------------------------- documented conversions (C13)
def normalize_coefficients(cs, L, dt):
    """alpha_i = a_i dt / L^i"""
    return tuple(smt.rdiv(smt.rmul(T(c), T(dt)), smt.rpow_int(T(L), i)) for i, c in enumerate(cs))


def denormalize_coefficients(cs, L, dt):
    """a_i = alpha_i L^i / dt"""
    return tuple(smt.rdiv(smt.rmul(T(c), smt.rpow_int(T(L), i)), T(dt)) for i, c in enumerate(cs))


def reduce_coefficients(alphas, D, N):
    """gamma_0 = alpha_0 ; gamma_j = alpha_j N^j 2^(j-1) D"""
    out = []
    for j, a in enumerate(alphas):
        if j == 0:
            out.append(T(a))
        else:
            out.append(smt.rmul(smt.rmul(T(a), smt.rpow_int(T(N), j)), 2 ** (j - 1) * D))
    return tuple(out)


def extract_coefficients(gammas, D, N):
    """alpha_0 = gamma_0 ; alpha_j = gamma_j / (N^j 2^(j-1) D)"""
    out = []
    for j, g in enumerate(gammas):
        if j == 0:
            out.append(T(g))
        else:
            out.append(smt.rdiv(T(g), smt.rmul(smt.rpow_int(T(N), j), 2 ** (j - 1) * D)))
    return tuple(out)


def reduce_convection(beta, D, N, M):
    """delta_1 = beta_1 M N D"""
    return smt.rmul(smt.rmul(smt.rmul(T(beta), T(M)), T(N)), D)


def extract_convection(delta, D, N, M):
    """beta_1 = delta_1 / (M N D)"""
    return smt.rdiv(T(delta), smt.rmul(smt.rmul(T(M), T(N)), D))


def reduce_gradient_norm(beta, D, N, M):
    """delta_2 = beta_2 M N^2 D"""
    return smt.rmul(smt.rmul(smt.rmul(T(beta), T(M)), smt.rpow_int(T(N), 2)), D)


def extract_gradient_norm(delta, D, N, M):
    """beta_2 = delta_2 / (M N^2 D)"""
    return smt.rdiv(T(delta), smt.rmul(smt.rmul(T(M), smt.rpow_int(T(N), 2)), D))


# ------------------------------------------------------------------------------------ wave
def wave_norm(D, L, N):
    """|kappa|_2 per mode, shape (1, ...)"""
    return arr((1,) + wshape(D, N), lambda idx: smt.rsqrt(rsum([smt.rmul(kappa(d, idx[1:], D, N, L), kappa(d, idx[1:], D, N, L)) for d in range(D)])))


def wave_linear_operator(D, L, N, c):
    """travelling-wave symbols (+ i c |kappa|, - i c |kappa|)"""
    wn = wave_norm(D, L, N)

    def fn(idx):
        w = smt.rmul(T(c), wn.at_((0,) + idx[1:]))
        return pick(idx[0], [CX(0, w), CX(0, smt.rneg(w))], "complex")
    return arr((2,) + wshape(D, N), fn, "complex")
