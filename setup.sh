#!/bin/sh
# MANIFEST.setup_cmd: build the offline overlay venv /verif/.venv (python 3.12 of /venv +
# z3-solver, cvc5, jsonschema from the wheelhouse; jax/equinox/exponax via a .pth onto /venv).
set -e
cd "$(dirname "$0")"
if [ -x .venv/bin/python ] && .venv/bin/python -c "import z3, jax, equinox, exponax" 2>/dev/null; then
  echo "setup: .venv present"; exit 0
fi
rm -rf .venv
/venv/bin/python -m venv .venv
PIP_NO_INDEX=1 .venv/bin/pip install -q --no-index --find-links /opt/veriftools/wheels z3-solver cvc5 jsonschema mpmath sympy
SP=$(.venv/bin/python -c "import site; print(site.getsitepackages()[0])")
echo "import site; site.addsitedir('/venv/lib/python3.12/site-packages')" > "$SP/_repo_overlay.pth"
.venv/bin/python -c "import z3, jax, equinox, exponax; print('setup ok', z3.get_version_string(), exponax.__file__)"
