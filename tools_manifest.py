"""Regenerates MANIFEST.json from the table below (kept as code so that it is always schema-valid)."""
import json, os
HERE = os.path.dirname(os.path.abspath(__file__))
BASE = json.load(open("/root/.vp/BASELINE.json"))["cmd"] if os.path.exists("/root/.vp/BASELINE.json") else "cd /repo && /venv/bin/python -m pytest -q"

CLAIMED = {
    # id: (level text, level note, technique, design_ref)
    "C04": ("Every function of the grid/FFT/coefficient conventions (wavenumbers, scaling arrays, masks, mode slices, fft/ifft wrappers, coefficient read-off, make_grid) is under a sidecar contract whose post-condition is 'result equals the documented spec for every index'; the real function objects are executed symbolically (N, L symbolic, D in {1,2,3} and both indexings enumerated) and every obligation is discharged by z3 for all N. Level-2 lemmas connect the contracts to the property statement.",
            "jax.numpy primitives replaced by their assumed contracts (shim, DESIGN 2.3); IEEE arithmetic treated as exact reals; DFT facts A5 (ifft(fft(u))=u, single-mode spectrum) assumed, not proved.",
            "contract-based deductive verification: symbolic execution of the real code under a jax.numpy contract shim, VCs discharged by z3", "4/C04"),
}
NA = {
    "C06": "quantifies over JAX program transformations (jit/vmap/filter_vmap of constructors); no contract on an exponax function can express it short of assuming it (DESIGN 5)",
    "C07": "correctness of JAX AD rules and IEEE behaviour of guarded divisions; not expressible as a contract over exact reals (DESIGN 5)",
    "C19": "every clause is about floating point (overflow, dtype promotion, float32 vs float64); the verifier's arithmetic is exact (DESIGN 5)",
}
PENDING = {}

def build(all_ids):
    checks = []
    for pid, (text, note, tech, ref) in sorted(CLAIMED.items()):
        checks.append({
            "property_id": pid,
            "quick_cmd": f"./check {pid} --tier quick",
            "thorough_cmd": f"./check {pid} --tier thorough",
            "evidence_file": f"evidence/{pid}.json",
            "replay_cmd_template": "./check replay {path}",
            "engine": "symjnp",
            "level_claimed": {"category": "proof", "text": text, "design_ref": f"DESIGN.md section {ref}"},
            "level_note": note,
            "technique": tech,
        })
    na = [{"property_id": k, "reason": v} for k, v in sorted(NA.items())]
    for pid in all_ids:
        if pid not in CLAIMED and pid not in NA:
            na.append({"property_id": pid, "reason": PENDING.get(pid, "contracts for this property are not built yet in this revision of /verif (work in progress, see DESIGN.md section 9)")})
    return {
        "version": 1,
        "setup_cmd": "./setup.sh",
        "hooks": {"guard": "EXPONAX_VERIF", "enable": "none needed: contracts are sidecar files under /verif and the jax names are rebound in-process at check time; /repo carries no instrumentation",
                  "baseline_off_cmd": BASE, "source_commits": [], "add_only": True},
        "engines": [{"name": "symjnp", "path": "symjnp/", "serves_properties": sorted(CLAIMED),
                     "kind_free_text": "forward symbolic executor of the real exponax function objects under a jax.numpy contract shim (index-lambda arrays over z3 terms), callee-by-contract stubs, VCs discharged by z3 (cvc5 for unknowns)"}],
        "checks": checks,
        "notes": "All checks rebuild everything from /repo's working tree (VERIF_REPO overrides for scratch copies). Exit codes: 0 held, 1 violation, 2 undecided, 3 tool failure.",
        "not_applicable": sorted(na, key=lambda d: d["property_id"]),
    }

if __name__ == "__main__":
    ids = [json.loads(l)["id"] for l in open(os.path.join(HERE, "properties.jsonl"))]
    m = build(ids)
    json.dump(m, open(os.path.join(HERE, "MANIFEST.json"), "w"), indent=1)
    import jsonschema
    jsonschema.validate(m, json.load(open("/root/.vp/MANIFEST.schema.json")))
    print("MANIFEST.json written:", len(m["checks"]), "checks,", len(m["not_applicable"]), "not applicable")
