"""Regenerates MANIFEST.json from the table below (kept as code so that it is always schema-valid)."""
import json
import os

HERE = os.path.dirname(os.path.abspath(__file__))
BASE = json.load(open("/root/.vp/BASELINE.json"))["cmd"] if os.path.exists("/root/.vp/BASELINE.json") else "cd /repo && /venv/bin/python -m pytest -q"

TECH = "contract-based deductive verification: symbolic execution of the real exponax functions under a jax.numpy contract shim (sidecar contracts, callee-by-contract stubs, scan invariants), VCs discharged by z3 / ring normaliser"
NOTE = ("jax.numpy / lax / random primitives are replaced by assumed contracts (shim, DESIGN 2.3); IEEE floats are treated as exact reals/complex; "
        "CPython, equinox and jax.tree_util run natively and are trusted; ")

CLAIMED = {
    "C01": ("Constructors of every linear stepper (all coefficient shapes and mixing flags, D in {1,2,3}) are proved to store exp(dt*sigma_doc(kappa)) for every mode, N, L, dt and coefficient value; ETDRK0 / BaseStepper / Wave step methods are proved equal to the documented per-mode update (Wave: the exact solution of h_t=v, v_t=c^2 Lap h). Lemmas: Hermitian symbols, semigroup and reversal of the propagator.",
            NOTE + "A5 (single-mode spectrum, inversion) links the per-mode statement to 'analytic solution of every band-limited state'.", "4/C01"),
    "C02": ("ETDRK1-4 constructors are proved (scan invariant over a symbolic number of contour points) to store dt times the complex contour mean of the Cox-Matthews closed forms for every complex symbol; step_fourier of every order equals the Cox-Matthews stage formulas with the nonlinear term an uninterpreted operator; every semi-linear stepper constructor is proved to pass its documented symbol and its own nonlinear term, for orders 0-4, and -- when the options are omitted -- the DOCUMENTED contour (16 points, radius 1) and dealiasing fraction, not whatever default the code carries.",
            NOTE + "A7 (contour mean = closed form) assumed; no contour node at the origin assumed (|dt*L| != r); the dt^p convergence theorem is cited, not proved.", "4/C02"),
    "C03": ("Every nonlinear-function class (constructor and __call__) is proved equal to the documented pseudo-spectral operator, term for term, with the dealiasing mask |k|_inf <= fraction*(N//2)-1 applied before ifft and after fft; the band lemma 3K<N (2/3) / 4K<N (1/2) is proved for all N; the documented default fractions (2/3 for the quadratic steppers and nonlinear functions, 1/2 for the cubic reaction steppers) are checked by constructing without the option.",
            NOTE + "rfftn/irfftn are opaque real-linear operators (A5: the aliasing lemma itself is assumed).", "4/C03"),
    "C04": ("Every function of the grid / FFT / coefficient conventions is under contract (wavenumbers for both indexings, scaling arrays, masks, mode slices, fft/ifft wrappers, coefficient read-off, make_grid, wrap_bc); lemmas: index<->wavenumber bijection, scaling = Hermitian multiplicity / read-off factor, oddball mask = Nyquist set.",
            NOTE + "A5 (ifft(fft(u)) = u, single-mode spectrum) assumed.", "4/C04"),
    "C05": ("derivative, Laplace and gradient-inner-product operators, and the Poisson solver (constructor, step_fourier, step, __call__) are proved equal to their documented symbols for all N, L, D, orders 0-8; lemma: Lap_hat u_hat = -f_hat off the mean mode, u_hat = 0 at it; (i kappa)^n is the analytic symbol.",
            NOTE + "A5 for the physical-space reading.", "4/C05"),
    "C10": ("DIRECT checks (contracts/direct.py: the property's own clauses as post-conditions on the real code, whole call tree executed, no documented formula involved): with the derivative operator the real build_derivative_operator returns, Leray.__call__ has zero spectral divergence at every mode, is idempotent and leaves zero-divergence modes unchanged; make_incompressible(u) == irfftn(Leray_L(rfftn u)) for every L (the two routines agree); ProjectedConvection3d.__call__ and the velocity steppers' own nonlinear terms (Kolmogorov forcing included) are divergence-free for every input; every ETDRK order 1-4 satisfies div(step(u)) = propagator*div(u) per mode for arbitrary per-mode coefficients (hence zero divergence is preserved over any number of steps); the 3D velocity steppers have a one-channel linear operator. Spec-level lemma kept as documentation.",
            NOTE + "A5 (Nyquist-free fields / Hermitian-consistent spectra) links the spectral statements to the physical-space fields. The verdict does not depend on the 'equals the documented formula' contracts, so a change that alters documented values but keeps the field divergence-free does not alarm here.", "10.12/C10"),
    "C11": ("DIRECT checks (contracts/direct.py, whole call tree executed): for the object the real constructor returns -- Advection, Dispersion (both mixing flags): |propagator|^2 == 1 at every mode; Diffusion (scalar, per-axis, 2x2 PSD matrix), AdvectionDiffusion, HyperDiffusion (both flags), General/Normalized/DifficultyLinearStepper with dissipative signs: |propagator|^2 <= 1, and < 1 off the mean for positive (hyper-)diffusivity; ETDRK0.step_fourier multiplies every mode by the propagator (|out| = |E||u|); step_fourier of a constructed stepper does not amplify any mode and step/__call__ are irfftn o step_fourier o rfftn of the same object; the wave stepper's step_fourier conserves |v|^2 + (c|kappa|)^2 |h|^2 per mode. All for every N, L, dt > 0, coefficient value, D in {1,2,3}.",
            NOTE + "Parseval for rfftn/irfftn and 'irfftn discards the non-Hermitian part' (A5) carry the per-mode statement to the physical L2 norm. The verdict does not depend on the documented symbols: a change that alters the symbol but never amplifies does not alarm here (it fails C01's check).", "10.12/C11"),
    "C12": ("The Kolmogorov injections (2D vorticity, 3D velocity), their __call__, the stepper constructors passing mode/scale, GeneralVorticityConvectionStepper's both branches and ForcedStepper.step/step_fourier/__call__ are proved equal to the documented forcing / forcing split.",
            NOTE + "A5 (spectrum of a single cosine/sine) is how the documented physical-space forcing is stated in Fourier space.", "4/C12"),
    "C13": ("DIRECT pair checks (contracts/direct_pairs.py): TWO real constructors are executed on the same symbolic parameters (whole call tree under the jax.numpy shim, no callee replaced by its contract except the four ETDRK coefficient constructors, whose contracts are verified in the same run) and the constructed objects are compared: same integrator class, stored propagators and ETDRK coefficient arrays equal at every mode (up to dt_A/dt_B), nonlinear functions equal on an arbitrary Fourier state at every channel and mode -- for Advection/Diffusion/AdvectionDiffusion/Dispersion/HyperDiffusion ~ GeneralLinearStepper, Burgers (orders 1-4, all flag combinations)/KortewegDeVries/KuramotoSivashinskyConservative ~ GeneralConvectionStepper, KuramotoSivashinsky ~ GeneralGradientNormStepper, FisherKPP/AllenCahn ~ GeneralPolynomialStepper, NavierStokesVorticity/KolmogorovFlowVorticity ~ GeneralVorticityConvectionStepper, and General ~ Normalized ~ Difficulty for the linear, convection (orders 1-4), gradient-norm, polynomial and nonlinear families with the conversions of the statement; for every N, L > 0, dt != 0, coefficient value, D in {1,2,3}. Plus the contracts of every conversion function of stepper/generic/_utils.py ('follow the documented formulas') and the lemmas: conversions are mutual inverses, dt*sigma_generic(L;a) = sigma_generic(1;alpha).",
            NOTE + "documented convention: the j=0 generic term is D*a_0 (reaction rates enter the generic list as r/D). ETDRKp.step_fourier is a function of exactly the compared fields (its own contract is C02's). SwiftHohenberg ~ GeneralPolynomialStepper is not paired (its linear symbol is not a coefficient list of the generic stepper in D > 1). The verdict does not depend on the documented symbols: a change that alters a formula on both sides of a pair consistently does not alarm here (it fails C01/C02/C03).", "10.13/C13"),
    "C14": ("rollout and repeat are proved by the iteration rule for a symbolic trip count n >= 0 (all flag combinations, one- and two-leaf pytrees, real and complex leaves): entry i is ITER(i+1); stack_sub_trajectories returns every window; RepeatedStepper (incl. nested) / ForcedStepper wiring, effective dt and shape checks are proved; build_ic_set uses the documented key chain (unrolled for 1-3 samples: bounded in the sample count).",
            NOTE + "A5 for RepeatedStepper in physical space.", "4/C14"),
    "C08": ("Decided at the level of the contracts of C01-C03 (a code change that breaks a symmetry breaks one of those obligations: symbols, masks, nonlinear terms, constructors) plus lemmas over the documented symbols of every stepper of the table: sigma_doc is invariant under every axis permutation for isotropic parameters, sigma_D restricted to one axis equals sigma_1 (zeroth generic coefficient excluded: documented D*a_0 convention), wavenumber layout of full and halved axes agree below Nyquist.",
            NOTE + "translation equivariance rests on the shift theorem (A5) for Fourier multipliers / pointwise products; covariance of the documented continuous nonlinear operators under axis/channel permutation is textbook and assumed.", "4/C08"),
    "C09": ("From the C02/C03 contracts: sigma_doc(0)=0 for every conservation-form stepper; the conservative convection, mean-removed gradient-norm and Cahn-Hilliard terms vanish at the mean mode for EVERY state (using rfftn[0]=sum); every ETDRK order then leaves the mean coefficient unchanged; constant equilibria (N(u) = -lambda u) are fixed points of orders 1-4 with the closed-form coefficients.",
            NOTE + "A7 (coefficients = closed forms); for non-conservative convection forms, 2D vorticity and 3D rotational convection the vanishing mean of the convective term (3D: for divergence-free velocities only) and the energy/enstrophy neutrality are integration by parts over a symbolic-size grid (A5) -- assumed, NOT decided by this check. Known finding F7 (listed in known_findings.json, reported as KNOWN-FINDING): on grids with N <= 3 the dealiasing band is empty, the nonlinear term vanishes and reaction equilibria are not fixed points; the same obligation for N >= 4 is separate and must hold.", "4/C09"),
    "C15": ("FourierInterpolator (constructor, __call__) equals the documented reconstruction-scaled Fourier sum; map_between_resolutions is proved for ALL N_old, N_new >= 2 (all parity combinations, D in {1,2,3}, both oddball flags): every stored new mode in the common band receives the old coefficient of the same wavenumber times (N_new/N_old)^D, all others zero; lemma: the mean of any state is preserved.",
            NOTE + "A5 (band-limited exactness follows from the per-mode statement).", "4/C15"),
    "C16": ("spatial_aggregator / spatial_norm / the nine spatial metrics, fourier_aggregator / fourier_norm / six Fourier metrics, six H1 metrics, correlation and mean_metric (batch axis of symbolic length) are proved equal to the documented formulas (floor, band masks, derivative factor, Parseval weights 1/recon, per-channel sums) for symbolic C, N, L; lemmas: L^D scaling, homogeneity, zero, symmetry, band partition, N^D/recon = Hermitian multiplicity.",
            NOTE + "reference norms assumed non-zero; Parseval (A5) and Cauchy-Schwarz (A6) assumed.", "4/C16"),
    "C17": ("get_spectrum is proved (both binnings, power/amplitude, D in {1,2,3}, symbolic C and N) to equal the documented masked sums with 1/recon and 1/(2 recon N^D) weights; lemma: half-open bins partition [0, N//2+1/2).",
            NOTE + "nanmean of an empty bin is NaN natively (unconstrained here); Parseval (A5) assumed.", "4/C17"),
    "C18": ("Every public generator and function form of exponax.ic is under contract: validate_normalization_options, normalize_ic, WhiteNoise, RandomTruncatedFourierSeries, GaussianRandomField, DiffusedNoise, the clamping / scaling / multi-channel wrappers (sampled and function form), Discontinuity / Discontinuities / RandomDiscontinuities, GaussianBlob / GaussianBlobs / RandomGaussianBlobs, SineWaves1d / RandomSineWaves1d, BaseRandomICGenerator.__call__ (sampled form = function form on the generator's grid), build_ic_set (unrolled for 1-3 samples: bounded in the sample count) -- each proved equal to its documented construction (shape (1,N..N), cutoff mask, mean coefficient offset*N^D, power-law shaping with untouched mean, affine clamping, normalisation order, key-splitting chains), as deterministic terms in the abstract draws of the key; lemma: zero mean after mean removal, clamping end points.",
            NOTE + "jax.random draws are abstract functions of the key; MAX/MIN aggregate facts (A6) assumed; finiteness is floating point (not expressible).", "4/C18"),
    "C20": ("raises-contracts: __call__ of BaseStepper / RepeatedStepper / Poisson rejects exactly the mis-shaped states (symbolic wrong channel count, wrong axis length, rank +-1); dimension guards of the NS classes and nonlinear terms, parity guards of the operators, option guards (scaling mode, scale_list length, ifft in 1D, order not in 0..4).",
            NOTE + "pure shape / integer reasoning. Of the obligations in the cone only those ABOUT rejections count for this property (the `raises` obligations, the vacuity guards and the shape / rank / type clauses of `ensures`); value obligations in the same contracts are excluded (reported as obligations_in_the_cone_not_about_this_property), so a change that only alters returned values does not alarm here.", "4/C20"),
}
NA = {
    "C06": "quantifies over JAX program transformations (jit/vmap/filter_vmap of constructors); no contract on an exponax function can express it short of assuming it (DESIGN 5)",
    "C07": "correctness of JAX AD rules and IEEE behaviour of guarded divisions; not expressible as a contract over exact reals (DESIGN 5)",
    "C19": "every clause is about floating point (overflow, dtype promotion, float32 vs float64); the verifier's arithmetic is exact (DESIGN 5)",
}
PENDING = {}


def build(all_ids):
    checks = []
    for pid, (text, note, ref) in sorted(CLAIMED.items()):
        checks.append({
            "property_id": pid,
            "quick_cmd": f"./check {pid} --tier quick",
            "thorough_cmd": f"./check {pid} --tier thorough",
            "evidence_file": f"evidence/{pid}.json",
            "replay_cmd_template": "./check replay {path}",
            "engine": "symjnp",
            "level_claimed": {"category": "proof", "text": text, "design_ref": f"DESIGN.md section {ref}"},
            "level_note": note,
            "technique": TECH,
        })
    na = [{"property_id": k, "reason": v} for k, v in sorted(NA.items())]
    for pid in all_ids:
        if pid not in CLAIMED and pid not in NA:
            na.append({"property_id": pid, "reason": PENDING.get(pid, "contracts for this property are not complete in this revision of /verif (work in progress, DESIGN.md section 9); not claimed until its check passes on the unchanged tree")})
    return {
        "version": 1,
        "setup_cmd": "./setup.sh",
        "hooks": {"guard": "EXPONAX_VERIF", "enable": "none needed: contracts are sidecar files under /verif and the jax names are rebound in-process at check time; /repo carries no instrumentation",
                  "baseline_off_cmd": BASE, "source_commits": [], "add_only": True},
        "engines": [{"name": "symjnp", "path": "symjnp/", "serves_properties": sorted(CLAIMED),
                     "kind_free_text": "forward symbolic executor of the real exponax function objects under a jax.numpy contract shim (index-lambda arrays over z3 terms), callee-by-contract stubs, scan invariants, VCs discharged by z3 with a ring / exponential-polynomial normaliser front end; native replay of counterexamples on real jax"}],
        "checks": checks,
        "notes": "Every check's cone is closed under callees (a contract used as a stub in a proof is itself verified in the same check). Attribution: C01-C05, C12, C14-C18 state 'equals the documented formula' and are decided by exactly those contracts; C10, C11, C13 are decided by direct checks of their own statement on the real code (C13: pairs of real constructors compared field by field, plus the conversion-function contracts) and C20 by the rejection/shape obligations only (including the constructor clauses num_channels / num_points / num_spatial_dims, which define the accepted state shape); C08, C09 are derived properties decided through the documented-formula contracts (sound: nothing that breaks them passes; not sharp: a change that breaks the documented formula but happens to keep the symmetry / conservation / equivalence still alarms -- DESIGN 10.12). All checks rebuild everything from /repo's working tree (VERIF_REPO overrides for scratch copies). Exit codes: 0 held, 1 violation, 2 undecided, 3 tool failure. quick = all contract obligations and lemmas of the property's cone (unbounded proofs); thorough = quick + a BOUNDED native conformance sweep (5 concrete configurations per contract case on the real jax, float64, against the numerically evaluated spec; reported under coverage.bounded_conformance_sweep, never counted as discharged) + lean re-check of lemmas/Axioms.lean (the exp/cos/sin/sqrt/pi schemes the solver uses). Results of shared (contract, case) items are cached under .cache/<hash of /repo/exponax and of the verifier sources>.",
        "not_applicable": sorted(na, key=lambda d: d["property_id"]),
    }


if __name__ == "__main__":
    ids = [json.loads(l)["id"] for l in open(os.path.join(HERE, "properties.jsonl"))]
    m = build(ids)
    json.dump(m, open(os.path.join(HERE, "MANIFEST.json"), "w"), indent=1)
    import jsonschema
    jsonschema.validate(m, json.load(open("/root/.vp/MANIFEST.schema.json")))
    print("MANIFEST.json written:", len(m["checks"]), "checks,", len(m["not_applicable"]), "not applicable")
