import argparse
import os
import sys

HERE = os.path.dirname(os.path.abspath(__file__))
sys.path.insert(0, HERE)
os.environ.setdefault("JAX_PLATFORMS", "cpu")
os.environ.setdefault("JAX_ENABLE_X64", "1")


def main():
    ap = argparse.ArgumentParser()
    ap.add_argument("what")
    ap.add_argument("arg", nargs="?")
    ap.add_argument("--tier", default=os.environ.get("VERIF_TIER", "quick"))
    a = ap.parse_args()
    seed = int(os.environ.get("VERIF_SEED", "0") or 0)
    from symjnp import runner
    if a.what == "replay":
        from symjnp import native
        runner.load_all()
        sys.exit(native.replay_file(a.arg))
    sys.exit(runner.check(a.what, tier=a.tier, seed=seed))


if __name__ == "__main__":   # (worker processes are spawned and import this module)
    try:
        main()
    except SystemExit:
        raise
    except BaseException:   # a crash of the checker is exit 3 (tool failure) -- never 1, which means "violation"
        import traceback
        traceback.print_exc()
        print("TOOL-ERROR the checker itself crashed (see traceback above); nothing is claimed about the property")
        sys.exit(3)
